//! C06 — a crash at any point of a save leaves old or new state.
//!
//! K (protocol tie): every save routine is run ONCE in a worker process (`c06 --worker …`) under
//! `strace`; the write-side syscalls on the scratch directory (open-for-write, write, fsync, rename,
//! unlink), canonicalised (names relative to the directory, consecutive writes to one file
//! coalesced), are the response to the `step` request — the Lean model (Model/SaveProtocols over
//! Spec/Fs) has to produce the same trace for the same logical save. `state i k` lines compare the
//! file-system state (name:len:synced:fnv) the harness's crash-state builder computes at a cut with
//! what Spec/Fs computes, `resume i k v` lines continue a history from a crash image.
//!
//! O (oracle): from the observed trace every crash state the crash relation allows is
//! materialised (every cut between operations and inside writes at 64-byte granularity + first and
//! last byte; un-synced content as written / dropped / zeros / stale bytes; rename atomic) and the
//! REAL loader runs on it in a fresh scratch directory (IndexManager::load_all, ResidencyDb::load,
//! LruManager::run_cycle on a fresh manager, DiskCache::get on a fresh instance,
//! ExtractorCompactorBackup::load); the result has to be the state before the save or the state
//! after it. A completed save has to reload as the state the saving process had in memory.
//!
//! Histories: short random ones per routine, plus the SIZE-CLASS family (`gen_size_classes`): a save
//! routine may treat objects differently by size (a threshold for "large" values, a buffer that is
//! bypassed, an alignment that adds a section), so for every size constant c found in the save
//! routines' source (read from /repo at run time: literal products / shifts and the named constants
//! made of them) and of the environment (page, BufWriter, 64 KiB, 1 MiB, tokio's file buffer) there
//! are objects of c-1, c, c+1 bytes (disk cache: 16 MiB ± 1 for the mmap-read threshold) or entry
//! counts that put the file just below / above c (index bucket, residency db, LRU table). Writes
//! of these histories are cut at boundaries only (`coarse_positions`); a disk-cache value from
//! 128 KiB on reaches the model as `@len:seed:mlen` (a tail of one master stream per run).
//!
//! Protocol (one response line per request line):
//!   begin <routine> [k=v …]                         -> ok
//!   step <worker script> | <model parameters>       -> <op>;<op>;…   (or `-` for no operation)
//!        op = creat[!] N | append[!] N | write N LEN FNV | fsync N | rename[!] A B | unlink[!] N
//!        (`!` = the call failed and changed nothing)
//!   state <i> <k>                                   -> N:LEN:SYNCED:FNV …  after i ops + k bytes of op i
//!   resume <i> <k> <asis|trunc|zeros>               -> N:LEN:FNV …         the crash image; history goes on from it
use cascette_cache::config::DiskCacheConfig;
use cascette_cache::disk_cache::DiskCache;
use cascette_cache::key::CacheKey;
use cascette_cache::traits::AsyncCache;
use cascette_client_storage::index::IndexManager;
use cascette_client_storage::kmt::key_state::ResidencyDb;
use cascette_client_storage::lru::LruManager;
use cascette_client_storage::storage::compaction::ExtractorCompactorBackup;
use cascette_crypto::EncodingKey;
use std::collections::{BTreeMap, HashSet};
use std::panic::AssertUnwindSafe;
use std::path::{Path, PathBuf};
use std::process::Command;
use verif_harness::*;

// ---------------------------------------------------------------------------------------------
// small helpers
// ---------------------------------------------------------------------------------------------

fn fnv64(b: &[u8]) -> u64 {
    let mut h = 0xcbf2_9ce4_8422_2325u64;
    for x in b {
        h ^= u64::from(*x);
        h = h.wrapping_mul(0x0000_0100_0000_01b3);
    }
    h
}

#[derive(Hash, PartialEq, Eq, Clone, Debug)]
struct RawKey(String);
impl CacheKey for RawKey {
    fn as_cache_key(&self) -> &str {
        &self.0
    }
}

fn rt() -> tokio::runtime::Runtime {
    tokio::runtime::Builder::new_current_thread().enable_all().build().expect("runtime")
}

type Snap = BTreeMap<String, Vec<u8>>;

fn snapshot(dir: &Path) -> Snap {
    fn walk(base: &Path, d: &Path, out: &mut Snap) {
        if let Ok(rd) = std::fs::read_dir(d) {
            for e in rd.flatten() {
                let p = e.path();
                if p.is_dir() {
                    walk(base, &p, out);
                } else if let Ok(b) = std::fs::read(&p) {
                    let rel = p.strip_prefix(base).unwrap().to_string_lossy().to_string();
                    out.insert(rel, b);
                }
            }
        }
    }
    let mut s = Snap::new();
    walk(dir, dir, &mut s);
    s
}

fn materialise(dir: &Path, snap: &Snap) {
    for (n, b) in snap {
        let p = dir.join(n);
        if let Some(par) = p.parent() {
            let _ = std::fs::create_dir_all(par);
        }
        std::fs::write(&p, b).expect("materialise file");
    }
}

// ---------------------------------------------------------------------------------------------
// the observed file-system operations and the crash relation (mirror of Spec/Fs.lean)
// ---------------------------------------------------------------------------------------------

#[derive(Clone, Debug, PartialEq)]
enum FsOp {
    Create { name: String, ok: bool },
    OpenAppend { name: String, ok: bool },
    Write { name: String, data: Vec<u8> },
    Fsync { name: String },
    Rename { from: String, to: String, ok: bool },
    Unlink { name: String, ok: bool },
}

fn op_text(o: &FsOp) -> String {
    let bang = |ok: &bool| if *ok { "" } else { "!" };
    match o {
        FsOp::Create { name, ok } => format!("creat{} {name}", bang(ok)),
        FsOp::OpenAppend { name, ok } => format!("append{} {name}", bang(ok)),
        FsOp::Write { name, data } => format!("write {name} {} {:016x}", data.len(), fnv64(data)),
        FsOp::Fsync { name } => format!("fsync {name}"),
        FsOp::Rename { from, to, ok } => format!("rename{} {from} {to}", bang(ok)),
        FsOp::Unlink { name, ok } => format!("unlink{} {name}", bang(ok)),
    }
}

fn trace_text(t: &[FsOp]) -> String {
    if t.is_empty() { "-".into() } else { t.iter().map(op_text).collect::<Vec<_>>().join(";") }
}

#[derive(Clone, Debug, PartialEq)]
struct FileSt {
    data: Vec<u8>,
    synced: usize,
    /// what the blocks held before the last truncation (for the `stale` crash variant)
    stale: Vec<u8>,
}
type DirSt = BTreeMap<String, FileSt>;

fn durable(s: &Snap) -> DirSt {
    s.iter().map(|(n, b)| (n.clone(), FileSt { data: b.clone(), synced: b.len(), stale: vec![] })).collect()
}

fn apply(d: &mut DirSt, op: &FsOp) {
    match op {
        FsOp::Create { name, ok: true } => {
            let stale = d.get(name).map(|f| f.data.clone()).unwrap_or_default();
            d.insert(name.clone(), FileSt { data: vec![], synced: 0, stale });
        }
        FsOp::OpenAppend { name, ok: true } => {
            d.entry(name.clone()).or_insert(FileSt { data: vec![], synced: 0, stale: vec![] });
        }
        FsOp::Write { name, data } => {
            if let Some(f) = d.get_mut(name) {
                f.data.extend_from_slice(data);
            }
        }
        FsOp::Fsync { name } => {
            if let Some(f) = d.get_mut(name) {
                f.synced = f.data.len();
            }
        }
        FsOp::Rename { from, to, ok: true } => {
            if from != to {
                if let Some(f) = d.remove(from) {
                    d.insert(to.clone(), f);
                }
            }
        }
        FsOp::Unlink { name, ok: true } => {
            d.remove(name);
        }
        _ => {}
    }
}

/// state after the first `i` operations and the first `k` bytes of operation `i` (a write).
fn state_at(old: &DirSt, t: &[FsOp], i: usize, k: usize) -> DirSt {
    let mut d = old.clone();
    for o in &t[..i.min(t.len())] {
        apply(&mut d, o);
    }
    if k > 0 {
        if let Some(FsOp::Write { name, data }) = t.get(i) {
            apply(&mut d, &FsOp::Write { name: name.clone(), data: data[..k.min(data.len())].to_vec() });
        }
    }
    d
}

const VARIANTS: [&str; 4] = ["asis", "trunc", "zeros", "stale"];

fn image(d: &DirSt, variant: &str) -> Snap {
    d.iter()
        .map(|(n, f)| {
            let s = f.synced.min(f.data.len());
            let mut b = f.data[..s].to_vec();
            match variant {
                "asis" => b.extend_from_slice(&f.data[s..]),
                "trunc" => {}
                "zeros" => b.resize(f.data.len(), 0),
                _ => {
                    for j in s..f.data.len() {
                        b.push(f.stale.get(j).copied().unwrap_or(0xA5 ^ (j as u8).wrapping_mul(7)));
                    }
                }
            }
            (n.clone(), b)
        })
        .collect()
}

/// how the writes of a trace are cut
#[derive(Clone, Debug)]
struct CutPolicy {
    /// a write of at most `coarse_above` bytes is cut every `gran` bytes (+ its first and last bytes)
    gran: usize,
    /// a longer write is cut at boundaries only (`coarse_positions`)
    coarse_above: usize,
    /// size constants whose multiples are the boundary positions
    marks: Vec<usize>,
}

/// writes above this length are cut coarsely under every policy
const COARSE_ALWAYS_ABOVE: usize = 256 * 1024;
/// from this length on a coarsely cut write gets only a handful of positions (every crash state of
/// such a write costs a copy, a materialisation and a reload of the whole value)
const HUGE_WRITE: usize = 1024 * 1024;
const DEFAULT_MARKS: [usize; 4] = [4096, 8192, 65536, 1024 * 1024];

impl CutPolicy {
    fn fine(gran: usize) -> Self {
        CutPolicy { gran, coarse_above: COARSE_ALWAYS_ABOVE, marks: DEFAULT_MARKS.to_vec() }
    }
    fn with_gran(&self, gran: usize) -> Self {
        CutPolicy { gran, ..self.clone() }
    }
}

/// boundary cut positions inside a write of `n` bytes: first and last bytes, the middle, and the
/// multiples of the size constants (the first three and the last one below `n`, each with its two
/// neighbours). A huge write: first byte, one page, the middle, the last multiple of the largest
/// constant below `n`, the last byte.
fn coarse_positions(n: usize, marks: &[usize]) -> Vec<usize> {
    let mut ks: Vec<usize> = vec![1, n / 2, n.saturating_sub(1)];
    if n >= HUGE_WRITE {
        ks.push(4096);
        if let Some(c) = marks.iter().copied().filter(|c| *c >= 512 && *c < n).max() {
            ks.push((n - 1) / c * c);
        }
    } else {
        ks.extend([2, 3, 4, 8, n.saturating_sub(2), n.saturating_sub(4)]);
        for &c in marks.iter().filter(|c| **c >= 512 && **c < n) {
            let last = (n - 1) / c;
            for j in [1, 2, 3, last] {
                if j >= 1 && j <= last {
                    ks.extend([j * c - 1, j * c, j * c + 1]);
                }
            }
        }
    }
    ks.sort_unstable();
    ks.dedup();
    ks.retain(|k| *k > 0 && *k < n);
    ks
}

/// every cut: (i, 0) for i in 0..=n, and (i, k) inside write i.
fn cuts(t: &[FsOp], pol: &CutPolicy) -> Vec<(usize, usize)> {
    let mut v = vec![];
    for (i, o) in t.iter().enumerate() {
        v.push((i, 0));
        if let FsOp::Write { data, .. } = o {
            let n = data.len();
            let ks = if n > pol.coarse_above.min(COARSE_ALWAYS_ABOVE) {
                coarse_positions(n, &pol.marks)
            } else {
                let mut ks: Vec<usize> = vec![1, 2, 3, 4, 5, 6, 7, 8, n.saturating_sub(1), n.saturating_sub(2), n.saturating_sub(4)];
                let mut k = pol.gran.max(1);
                while k < n {
                    ks.push(k);
                    k += pol.gran.max(1);
                }
                ks.sort_unstable();
                ks.dedup();
                ks
            };
            for k in ks {
                if k > 0 && k < n {
                    v.push((i, k));
                }
            }
        }
    }
    v.push((t.len(), 0));
    v
}

fn listing_state(d: &DirSt) -> String {
    if d.is_empty() {
        return "-".into();
    }
    d.iter().map(|(n, f)| format!("{n}:{}:{}:{:016x}", f.data.len(), f.synced.min(f.data.len()), fnv64(&f.data))).collect::<Vec<_>>().join(" ")
}

fn listing_image(s: &Snap) -> String {
    if s.is_empty() {
        return "-".into();
    }
    s.iter().map(|(n, b)| format!("{n}:{}:{:016x}", b.len(), fnv64(b))).collect::<Vec<_>>().join(" ")
}

// ---------------------------------------------------------------------------------------------
// tracers: how the worker's write-side calls are observed
//
// PRIMARY: an LD_PRELOAD recorder (SHIM_C below, compiled with `cc` at start-up; needs no
// privileges): Rust std and tokio's blocking pool reach the kernel through the libc symbols it
// interposes. CROSS-CHECK (optional): strace, when ptrace is usable; the same execution is traced
// by both and the two canonical traces are compared (a difference is a defect of the harness,
// reported in stats.extra, never a property violation). An unusable tracer is an infrastructure
// error (exit code 4 with a message), never an oracle failure.
// ---------------------------------------------------------------------------------------------

const SHIM_C: &str = include_str!("c06_shim.c");

#[derive(Debug, Clone)]
enum Ev {
    Unlink { path: Vec<u8>, ok: bool },
    Open { path: Vec<u8>, wr: bool, append: bool, trunc: bool, ok: bool },
    Write { path: Option<Vec<u8>>, ok: bool, data: Vec<u8> },
    Fsync { path: Option<Vec<u8>>, ok: bool },
    /// a call that changes file content or names outside the sequential-write protocol
    Other { what: String, path: Option<Vec<u8>> },
    Rename { from: Vec<u8>, to: Vec<u8>, ok: bool },
}

#[derive(Debug, Clone)]
enum TraceErr {
    /// the tracer did not deliver (cannot spawn, empty or truncated log): infrastructure
    Infra(String),
    /// the save made a call the protocol model does not have (in-place open, pwrite, truncate …)
    Protocol(String),
}

#[derive(Debug, Clone, Default)]
struct Observed {
    pre: Vec<FsOp>,
    ops: Vec<FsOp>,
    failed_writes: u64,
}

/// decode a `\xNN…` string (strace -xx); returns (bytes, rest after the closing delimiter)
fn take_hex_string(s: &str, close: char) -> Option<(Vec<u8>, &str)> {
    let b = s.as_bytes();
    let mut out = vec![];
    let mut i = 0;
    while i < b.len() {
        if b[i] as char == close {
            return Some((out, &s[i + 1..]));
        }
        if b[i] == b'\\' && i + 3 < b.len() && b[i + 1] == b'x' {
            let nib = |c: u8| -> Option<u8> {
                match c {
                    b'0'..=b'9' => Some(c - b'0'),
                    b'a'..=b'f' => Some(c - b'a' + 10),
                    b'A'..=b'F' => Some(c - b'A' + 10),
                    _ => None,
                }
            };
            out.push(nib(b[i + 2])? << 4 | nib(b[i + 3])?);
            i += 4;
        } else {
            out.push(b[i]);
            i += 1;
        }
    }
    None
}

fn rel_name(base: &str, abs: &[u8]) -> Option<String> {
    let p = String::from_utf8_lossy(abs).to_string();
    let r = p.strip_prefix(base)?;
    if !r.starts_with('/') {
        return None;
    }
    Some(r.trim_start_matches('/').to_string()).filter(|r| !r.is_empty())
}

/// the write-side operations on `base` between the two marker unlinks, in program order.
fn fold_events(evs: &[Ev], base: &str) -> Result<Observed, TraceErr> {
    let mut o = Observed::default();
    let mut ended = false;
    let mut active = false;
    for ev in evs {
        match ev {
            Ev::Unlink { path, ok } => {
                let Some(n) = rel_name(base, path) else { continue };
                if n == "__BEGIN__" {
                    active = true;
                    continue;
                }
                if n == "__END__" {
                    active = false;
                    ended = true;
                    continue;
                }
                if active {
                    o.ops.push(FsOp::Unlink { name: n, ok: *ok });
                } else if !ended && *ok {
                    // the worker's own reopen (run_cycle's scan_directory) before the save
                    o.pre.push(FsOp::Unlink { name: n, ok: *ok });
                }
            }
            // what the worker's history did to the directory BEFORE the traced save (flush_all_updates
            // writes the flushed buckets through save_index): part of the state before the save
            Ev::Open { path, wr: true, append, trunc, ok: true } if !active && !ended => {
                let Some(n) = rel_name(base, path) else { continue };
                if *append {
                    o.pre.push(FsOp::OpenAppend { name: n, ok: true });
                } else if *trunc {
                    o.pre.push(FsOp::Create { name: n, ok: true });
                }
            }
            Ev::Write { path, ok: true, data } if !active && !ended => {
                let Some(n) = path.as_deref().and_then(|p| rel_name(base, p)) else { continue };
                o.pre.push(FsOp::Write { name: n, data: data.clone() });
            }
            Ev::Rename { from, to, ok: true } if !active && !ended => {
                let (Some(a), Some(b)) = (rel_name(base, from), rel_name(base, to)) else { continue };
                o.pre.push(FsOp::Rename { from: a, to: b, ok: true });
            }
            Ev::Open { path, wr, append, trunc, ok } => {
                let Some(n) = rel_name(base, path) else { continue };
                if !*wr || !active {
                    continue;
                }
                if *append {
                    o.ops.push(FsOp::OpenAppend { name: n, ok: *ok });
                } else if *trunc {
                    o.ops.push(FsOp::Create { name: n, ok: *ok });
                } else {
                    return Err(TraceErr::Protocol(format!("open for writing without O_TRUNC/O_APPEND (in-place update) on {n}")));
                }
            }
            Ev::Write { path, ok, data } => {
                let Some(n) = path.as_deref().and_then(|p| rel_name(base, p)) else { continue };
                if !active {
                    continue;
                }
                if !*ok {
                    // a failed write changes nothing: dropped from the canonical trace (counted)
                    o.failed_writes += 1;
                    continue;
                }
                if let Some(FsOp::Write { name: ln, data: ld }) = o.ops.last_mut() {
                    if *ln == n {
                        ld.extend_from_slice(data);
                        continue;
                    }
                }
                if !data.is_empty() {
                    o.ops.push(FsOp::Write { name: n, data: data.clone() });
                }
            }
            Ev::Fsync { path, ok } => {
                let Some(n) = path.as_deref().and_then(|p| rel_name(base, p)) else { continue };
                if active && *ok {
                    o.ops.push(FsOp::Fsync { name: n });
                }
            }
            Ev::Other { what, path } => {
                let Some(n) = path.as_deref().and_then(|p| rel_name(base, p)) else { continue };
                if active {
                    return Err(TraceErr::Protocol(format!("{what} on {n}: not a sequential write protocol")));
                }
            }
            Ev::Rename { from, to, ok } => {
                let (Some(a), Some(b)) = (rel_name(base, from), rel_name(base, to)) else { continue };
                if active {
                    o.ops.push(FsOp::Rename { from: a, to: b, ok: *ok });
                }
            }
        }
    }
    Ok(o)
}

/// events from `strace -f -y -xx` output
fn read_strace(path: &Path) -> Result<Vec<Ev>, TraceErr> {
    let text = std::fs::read_to_string(path).map_err(|e| TraceErr::Infra(format!("no strace output: {e}")))?;
    if text.trim().is_empty() {
        return Err(TraceErr::Infra("strace output is empty".into()));
    }
    let mut evs = vec![];
    // strace -f splits a call that overlaps another thread's call into `<unfinished ...>` and
    // `<... name resumed>`: glue them together again (per pid), keeping the order of completion.
    let mut pending: BTreeMap<String, String> = BTreeMap::new();
    let mut glued: Vec<String> = vec![];
    for line in text.lines() {
        let Some(sp) = line.find(' ') else { continue };
        let pid = line[..sp].to_string();
        let rest = line[sp + 1..].trim_start();
        if let Some(q) = rest.find("<unfinished ...>") {
            pending.insert(pid, rest[..q].to_string());
        } else if rest.starts_with("<... ") {
            let Some(q) = rest.find("resumed>") else { continue };
            let head = pending.remove(&pid).unwrap_or_default();
            glued.push(format!("{head}{}", &rest[q + 8..]));
        } else {
            glued.push(rest.to_string());
        }
    }
    for rest in &glued {
        let rest = rest.as_str();
        let Some(par) = rest.find('(') else { continue };
        let name = &rest[..par];
        // `name(args) = ret` — strace pads with blanks before `=` when the text before it is short
        // (always the case for `<... name resumed>)`)
        let Some(eqs) = rest.rfind(" = ") else { continue };
        let before = rest[..eqs].trim_end();
        if !before.ends_with(')') || before.len() <= par {
            continue;
        }
        let args = &before[par + 1..before.len() - 1];
        let ret = rest[eqs + 3..].trim();
        let ok = !ret.starts_with("-1");
        let retn: i64 = ret.split(|c: char| !c.is_ascii_digit() && c != '-').next().and_then(|x| x.parse().ok()).unwrap_or(-1);
        // all strings of the argument list
        let strings = |mut a: &str| -> Vec<Vec<u8>> {
            let mut v = vec![];
            while let Some(q) = a.find('"') {
                match take_hex_string(&a[q + 1..], '"') {
                    Some((b, r)) => {
                        v.push(b);
                        a = r;
                    }
                    None => break,
                }
            }
            v
        };
        // the fd's path as strace resolved it
        let fdpath = || args.find('<').and_then(|q| take_hex_string(&args[q + 1..], '>')).map(|(b, _)| b);
        match name {
            "unlink" | "unlinkat" => {
                if let Some(p) = strings(args).into_iter().next() {
                    evs.push(Ev::Unlink { path: p, ok });
                }
            }
            "open" | "openat" | "creat" => {
                let Some(p) = strings(args).into_iter().next() else { continue };
                let creat = name == "creat";
                evs.push(Ev::Open {
                    path: p,
                    wr: args.contains("O_WRONLY") || args.contains("O_RDWR") || creat,
                    append: args.contains("O_APPEND"),
                    trunc: args.contains("O_TRUNC") || creat,
                    ok,
                });
            }
            "write" | "writev" => {
                let mut data = vec![];
                if ok {
                    if name == "writev" {
                        // the iovec rendering is not decoded: only allowed away from the directory
                        evs.push(Ev::Other { what: "writev".into(), path: fdpath() });
                        continue;
                    }
                    data = strings(args).into_iter().next().unwrap_or_default();
                    let wrote = usize::try_from(retn).unwrap_or(0);
                    if data.len() < wrote {
                        return Err(TraceErr::Infra("strace truncated the data of a write".into()));
                    }
                    data.truncate(wrote);
                }
                evs.push(Ev::Write { path: fdpath(), ok, data });
            }
            "fsync" | "fdatasync" => evs.push(Ev::Fsync { path: fdpath(), ok }),
            "pwrite64" | "ftruncate" => evs.push(Ev::Other { what: name.to_string(), path: fdpath() }),
            "rename" | "renameat" | "renameat2" => {
                let ss = strings(args);
                if ss.len() >= 2 {
                    evs.push(Ev::Rename { from: ss[0].clone(), to: ss[1].clone(), ok });
                }
            }
            _ => {}
        }
    }
    Ok(evs)
}

/// events from the LD_PRELOAD recorder's log (see SHIM_C for the record formats)
fn read_shim_log(path: &Path) -> Result<Vec<Ev>, TraceErr> {
    let text = std::fs::read_to_string(path).map_err(|e| TraceErr::Infra(format!("no recorder log: {e}")))?;
    if text.trim().is_empty() {
        return Err(TraceErr::Infra("the LD_PRELOAD recorder wrote nothing (library not loaded?)".into()));
    }
    let mut fds: BTreeMap<i64, Vec<u8>> = BTreeMap::new();
    let resolve = |fds: &BTreeMap<i64, Vec<u8>>, p: &str| -> Vec<u8> {
        // `@<dirfd>/<relative path>` from an *at call
        if let Some(r) = p.strip_prefix('@') {
            if let Some((fd, rel)) = r.split_once('/') {
                if let Some(d) = fd.parse::<i64>().ok().and_then(|fd| fds.get(&fd)) {
                    let mut v = d.clone();
                    v.push(b'/');
                    v.extend_from_slice(rel.as_bytes());
                    return v;
                }
            }
        }
        p.as_bytes().to_vec()
    };
    let mut evs = vec![];
    for line in text.lines() {
        let f: Vec<&str> = line.split('\t').collect();
        let num = |i: usize| f.get(i).and_then(|x| x.parse::<i64>().ok());
        match f.first().copied() {
            Some("O") => {
                let (Some(ret), Some(flags), Some(p)) = (num(1), num(3), f.get(4)) else { continue };
                let path = resolve(&fds, p);
                let acc = flags & 3;
                if ret >= 0 {
                    fds.insert(ret, path.clone());
                }
                evs.push(Ev::Open { path, wr: acc == 1 || acc == 2, append: flags & 0o2000 != 0, trunc: flags & 0o1000 != 0, ok: ret >= 0 });
            }
            Some("C") => {
                if let Some(fd) = num(1) {
                    fds.remove(&fd);
                }
            }
            Some("W") => {
                let (Some(fd), Some(ret)) = (num(1), num(2)) else { continue };
                let data = f.get(4).and_then(|h| unhex(h)).unwrap_or_default();
                if ret >= 0 && data.len() as i64 != ret {
                    return Err(TraceErr::Infra("recorder log: a write record is cut short".into()));
                }
                evs.push(Ev::Write { path: fds.get(&fd).cloned(), ok: ret >= 0, data });
            }
            Some("S") => {
                let (Some(fd), Some(ret)) = (num(1), num(2)) else { continue };
                evs.push(Ev::Fsync { path: fds.get(&fd).cloned(), ok: ret >= 0 });
            }
            Some("X") => {
                let (Some(what), Some(fd)) = (f.get(1), num(2)) else { continue };
                evs.push(Ev::Other { what: (*what).to_string(), path: fds.get(&fd).cloned() });
            }
            Some("Y") => {
                let (Some(what), Some(p)) = (f.get(1), f.get(3)) else { continue };
                evs.push(Ev::Other { what: (*what).to_string(), path: Some(resolve(&fds, p)) });
            }
            Some("R") => {
                let (Some(ret), Some(a), Some(b)) = (num(1), f.get(2), f.get(3)) else { continue };
                evs.push(Ev::Rename { from: resolve(&fds, a), to: resolve(&fds, b), ok: ret >= 0 });
            }
            Some("U") => {
                let (Some(ret), Some(p)) = (num(1), f.get(2)) else { continue };
                evs.push(Ev::Unlink { path: resolve(&fds, p), ok: ret >= 0 });
            }
            _ => {}
        }
    }
    Ok(evs)
}

/// a command for an external tool (cc, strace) with a PATH that has the standard directories even
/// when the harness was started with an empty environment
fn tool(name: &str) -> Command {
    let std_dirs = "/usr/local/sbin:/usr/local/bin:/usr/sbin:/usr/bin:/sbin:/bin";
    let path = match std::env::var("PATH") {
        Ok(p) if !p.is_empty() => format!("{p}:{std_dirs}"),
        _ => std_dirs.to_string(),
    };
    // resolve the program ourselves: Command looks the name up in the PARENT's PATH
    let prog = path.split(':').map(|d| Path::new(d).join(name)).find(|p| p.is_file()).unwrap_or_else(|| PathBuf::from(name));
    let mut c = Command::new(prog);
    c.env("PATH", path).stdin(std::process::Stdio::null());
    c
}

struct Tracer {
    /// the compiled recorder library (kept in `_shim_dir`)
    shim: Option<PathBuf>,
    _shim_dir: Option<tempfile::TempDir>,
    strace: bool,
    desc: String,
}

static TRACER: std::sync::OnceLock<Tracer> = std::sync::OnceLock::new();
static XCHECK_RUNS: std::sync::atomic::AtomicU64 = std::sync::atomic::AtomicU64::new(0);
static XCHECK_DIFFS: std::sync::Mutex<Vec<String>> = std::sync::Mutex::new(Vec::new());
static XCHECK_SKIPPED: std::sync::atomic::AtomicU64 = std::sync::atomic::AtomicU64::new(0);
/// disk-cache values from this length on are traced by the recorder alone
const XCHECK_MAX_VALUE: usize = 4 * 1024 * 1024;

const STRACE_ARGS: [&str; 7] = ["-f", "-y", "-xx", "-s", "40000000", "-e", "trace=open,openat,creat,write,pwrite64,writev,ftruncate,fsync,fdatasync,rename,renameat,renameat2,unlink,unlinkat"];
const PROBE_TRACE: &str = "creat p;write p 3 e71fa2190541574b;fsync p;rename p q;unlink q";

/// run `exe --worker <wargs>` under the given tracers; returns (stdout, stderr, per-tracer events)
#[allow(clippy::type_complexity)]
fn run_traced(shim: Option<&Path>, strace: bool, wargs: &[String]) -> Result<(String, String, Option<Result<Vec<Ev>, TraceErr>>, Option<Result<Vec<Ev>, TraceErr>>), String> {
    let exe = std::env::current_exe().map_err(|e| e.to_string())?;
    let logs = tempfile::tempdir().map_err(|e| format!("no scratch directory: {e}"))?;
    let shim_log = logs.path().join("calls.log");
    let strace_log = logs.path().join("strace.out");
    let mut cmd;
    if strace {
        cmd = tool("strace");
        cmd.args(STRACE_ARGS).arg("-o").arg(&strace_log);
        if let Some(sh) = shim {
            // -E: the variables are set for the traced program only, not for strace itself
            cmd.arg("-E").arg(format!("LD_PRELOAD={}", sh.display()));
            cmd.arg("-E").arg(format!("C06_TRACE_LOG={}", shim_log.display()));
        }
        cmd.arg(&exe);
    } else {
        cmd = Command::new(&exe);
        if let Some(sh) = shim {
            cmd.env("LD_PRELOAD", sh).env("C06_TRACE_LOG", &shim_log);
        }
    }
    cmd.arg("--worker").args(wargs).stdin(std::process::Stdio::null());
    let out = cmd.output().map_err(|e| format!("cannot run the worker{}: {e}", if strace { " under strace" } else { "" }))?;
    let a = shim.map(|_| read_shim_log(&shim_log));
    let b = if strace { Some(read_strace(&strace_log)) } else { None };
    Ok((String::from_utf8_lossy(&out.stdout).to_string(), String::from_utf8_lossy(&out.stderr).to_string(), a, b))
}

fn probe(shim: Option<&Path>, strace: bool) -> Result<(), String> {
    let td = tempfile::tempdir().map_err(|e| format!("no scratch directory: {e}"))?;
    let dir = td.path().canonicalize().map_err(|e| e.to_string())?;
    let base = dir.to_string_lossy().to_string();
    let (stdout, stderr, a, b) = run_traced(shim, strace, &["probe".to_string(), base.clone(), "-".to_string()])?;
    if !stdout.contains("RESULT ok") {
        return Err(format!("probe worker did not finish: {}", stderr.chars().take(300).collect::<String>()));
    }
    for r in [a, b].into_iter().flatten() {
        let evs = r.map_err(|e| format!("{e:?}"))?;
        let o = fold_events(&evs, &base).map_err(|e| format!("{e:?}"))?;
        let got = trace_text(&o.ops);
        if got != PROBE_TRACE {
            return Err(format!("probe trace is `{got}`, expected `{PROBE_TRACE}`"));
        }
    }
    Ok(())
}

fn build_shim() -> Result<(PathBuf, tempfile::TempDir), String> {
    let mut why = vec![];
    let mut places: Vec<PathBuf> = vec![std::env::temp_dir()];
    // a /tmp mounted noexec cannot hold a shared object: the directory of this binary can
    if let Some(d) = std::env::current_exe().ok().and_then(|e| e.parent().map(Path::to_path_buf)) {
        places.push(d);
    }
    for place in places {
        let td = match tempfile::Builder::new().prefix("c06shim").tempdir_in(&place) {
            Ok(t) => t,
            Err(e) => {
                why.push(format!("{}: {e}", place.display()));
                continue;
            }
        };
        let c = td.path().join("shim.c");
        let so = td.path().join("c06shim.so");
        if let Err(e) = std::fs::write(&c, SHIM_C) {
            why.push(format!("{}: {e}", c.display()));
            continue;
        }
        let mut built = false;
        for cc in ["cc", "gcc", "clang"] {
            match tool(cc).args(["-shared", "-fPIC", "-O2", "-o"]).arg(&so).arg(&c).arg("-ldl").output() {
                Ok(o) if o.status.success() && so.exists() => {
                    built = true;
                    break;
                }
                Ok(o) => why.push(format!("{cc}: {}", String::from_utf8_lossy(&o.stderr).chars().take(200).collect::<String>())),
                Err(e) => why.push(format!("{cc}: {e}")),
            }
        }
        if !built {
            continue;
        }
        match probe(Some(&so), false) {
            Ok(()) => return Ok((so, td)),
            Err(e) => why.push(format!("{}: {e}", place.display())),
        }
    }
    Err(why.join("; "))
}

fn init_tracer() -> &'static Tracer {
    TRACER.get_or_init(|| {
        let shim = if std::env::var_os("C06_NO_SHIM").is_some() { Err("disabled by C06_NO_SHIM".to_string()) } else { build_shim() };
        let strace: Result<(), String> = if std::env::var_os("C06_NO_STRACE").is_some() {
            Err("disabled by C06_NO_STRACE".into())
        } else {
            match tool("strace").args(["-o", "/dev/null", "-e", "trace=write", "true"]).output() {
                Ok(o) if o.status.success() => probe(None, true),
                Ok(o) => Err(format!("strace cannot trace: {}", String::from_utf8_lossy(&o.stderr).trim().chars().take(200).collect::<String>())),
                Err(e) => Err(format!("strace cannot be run: {e}")),
            }
        };
        match (shim, strace) {
            (Ok((so, td)), Ok(())) => Tracer { shim: Some(so), _shim_dir: Some(td), strace: true, desc: "ld_preload (cross-checked against strace on every save; disk-cache values from 4 MiB on by the recorder alone)".into() },
            (Ok((so, td)), Err(e)) => Tracer { shim: Some(so), _shim_dir: Some(td), strace: false, desc: format!("ld_preload (strace unavailable: {e})") },
            (Err(e), Ok(())) => Tracer { shim: None, _shim_dir: None, strace: true, desc: format!("strace (ld_preload unavailable: {e})") },
            (Err(e1), Err(e2)) => {
                eprintln!("c06: INFRASTRUCTURE ERROR: no usable tracer. ld_preload: {e1}. strace: {e2}");
                std::process::exit(4);
            }
        }
    })
}

fn drop_tracer_files() {
    if let Some(t) = TRACER.get() {
        if let Some(d) = &t._shim_dir {
            let _ = std::fs::remove_dir_all(d.path());
        }
    }
}

fn infra_exit(msg: &str) -> ! {
    eprintln!("c06: INFRASTRUCTURE ERROR (not a statement about the property): {msg}");
    drop_tracer_files();
    std::process::exit(4);
}

// ---------------------------------------------------------------------------------------------
// worker: performs ONE save of one routine on a directory (run under strace by the parent)
// ---------------------------------------------------------------------------------------------

fn marker(dir: &Path, which: &str) {
    let _ = std::fs::remove_file(dir.join(which));
}

fn key16(h: &str) -> [u8; 16] {
    let b = unhex(h).unwrap_or_default();
    let mut k = [0u8; 16];
    for (i, x) in b.iter().take(16).enumerate() {
        k[i] = *x;
    }
    k
}
fn key9(h: &str) -> [u8; 9] {
    let b = unhex(h).unwrap_or_default();
    let mut k = [0u8; 9];
    for (i, x) in b.iter().take(9).enumerate() {
        k[i] = *x;
    }
    k
}

fn idx_state(m: &IndexManager) -> String {
    let mut v: Vec<String> = m
        .iter_entries()
        .map(|(b, e)| format!("{b:02x}.{}.{}.{}.{}", hex(&e.key), e.archive_id(), e.archive_offset(), e.size))
        .collect();
    v.sort();
    format!("n={} {}", v.len(), v.join(","))
}

fn res_state(db: &ResidencyDb, universe: &[[u8; 16]]) -> String {
    let mut ks: Vec<String> = db.scan_keys().iter().map(|k| hex(k)).collect();
    ks.sort();
    let bits: String = universe.iter().map(|k| if db.is_resident(k) { '1' } else { '0' }).collect();
    format!("count={} scan={} res={bits}", db.entry_count(), ks.join(","))
}

fn lru_state(m: &LruManager) -> String {
    let mut order = vec![];
    m.for_each_entry(|k| order.push(hex(k)));
    format!("gen={} len={} order={}", m.generation(), m.len(), order.join(","))
}

fn jrn_state(b: Option<&ExtractorCompactorBackup>) -> String {
    // "no backup file" and "a backup with no segment recorded" are the same recovery state
    match b {
        None => "[]".into(),
        Some(b) => format!("[{}]", b.segments().iter().map(|x| x.to_string()).collect::<Vec<_>>().join(",")),
    }
}

/// a disk-cache value from its compact description:
///   `<len>x<seed>`           the first `len` bytes of the stream Rng(seed ^ 0xC06)
///   `<len>t<seed>m<mlen>`    the LAST `len` bytes of the first `mlen` bytes of that stream (the values
///                            of one size-class family are tails of one master, so the model side
///                            builds the master list once and shares it)
fn dc_value_spec(spec: &str) -> (usize, u64, usize) {
    if let Some((l, rest)) = spec.split_once('t') {
        let (sd, m) = rest.split_once('m').unwrap_or((rest, l));
        let n: usize = l.parse().unwrap_or(0);
        return (n, sd.parse().unwrap_or(0), m.parse::<usize>().unwrap_or(n).max(n));
    }
    let (l, sd) = spec.split_once('x').unwrap_or((spec, "0"));
    let n: usize = l.parse().unwrap_or(0);
    (n, sd.parse().unwrap_or(0), n)
}

fn dc_value(spec: &str) -> Vec<u8> {
    let (n, sd, m) = dc_value_spec(spec);
    let mut r = Rng::new(sd ^ 0xC06);
    let mut v = r.bytes(m);
    if m > n {
        v.drain(..m - n);
    }
    v
}

/// values at least this long go to the model as `data=@<len>:<seed>:<mlen>` (the model side
/// generates the same stream) instead of as hex: a 16 MiB value would be a 32 MB request line
const DC_COMPACT_FROM: usize = 128 * 1024;

/// RLIMIT_FSIZE with a SIGXFSZ handler that lifts the limit again after a number of signals, so a
/// save can be made to fail in its first attempt(s) and succeed in a later one. (libc symbols
/// declared by hand: the harness crate has no libc dependency.)
mod fsize_limit {
    use std::sync::atomic::{AtomicU64, Ordering};
    #[repr(C)]
    struct RLimit {
        cur: u64,
        max: u64,
    }
    unsafe extern "C" {
        fn getrlimit(resource: i32, rlim: *mut RLimit) -> i32;
        fn setrlimit(resource: i32, rlim: *const RLimit) -> i32;
        fn signal(signum: i32, handler: usize) -> usize;
    }
    const RLIMIT_FSIZE: i32 = 1;
    const SIGXFSZ: i32 = 25;
    static SIGNALS: AtomicU64 = AtomicU64::new(0);
    static LIFT_AT: AtomicU64 = AtomicU64::new(u64::MAX);

    fn lift() {
        let mut r = RLimit { cur: 0, max: 0 };
        // SAFETY: plain libc calls on a local struct of the right layout (x86_64 / aarch64 glibc: two u64)
        unsafe {
            if getrlimit(RLIMIT_FSIZE, &mut r) == 0 {
                r.cur = r.max;
                setrlimit(RLIMIT_FSIZE, &r);
            }
        }
    }
    extern "C" fn on_xfsz(_sig: i32) {
        let n = SIGNALS.fetch_add(1, Ordering::SeqCst) + 1;
        if n >= LIFT_AT.load(Ordering::SeqCst) {
            lift();
        }
    }
    pub fn arm(limit: u64, lift_at_signal: u64) {
        SIGNALS.store(0, Ordering::SeqCst);
        LIFT_AT.store(lift_at_signal.max(1), Ordering::SeqCst);
        let mut r = RLimit { cur: 0, max: 0 };
        // SAFETY: as above; the handler only touches atomics and calls setrlimit
        unsafe {
            signal(SIGXFSZ, on_xfsz as *const () as usize);
            if getrlimit(RLIMIT_FSIZE, &mut r) == 0 {
                r.cur = limit.min(r.max);
                setrlimit(RLIMIT_FSIZE, &r);
            }
        }
    }
    pub fn disarm() {
        lift();
    }
}

/// the i-th key of a `bulk` token: distinct for distinct i, XOR fold of the first 9 bytes constant
/// (same bucket as `gen_key16(_, true)`)
fn bulk_key16(r: &mut Rng, i: u64) -> [u8; 16] {
    let mut k = [0u8; 16];
    for b in &mut k {
        *b = r.byte();
    }
    k[0] = i as u8;
    k[2] = (i >> 8) as u8;
    k[4] = (i >> 16) as u8 | 0x80; // never all-zero
    for j in [0usize, 2, 4, 6] {
        k[j + 1] = k[j];
    }
    k[8] = 0xC0;
    k
}

/// the i-th key of a `fill` token: distinct for distinct i, all 16 bytes XOR to `x`
fn fill_key16(r: &mut Rng, i: u64, x: u8) -> [u8; 16] {
    let mut k = [0u8; 16];
    for b in &mut k {
        *b = r.byte();
    }
    k[0] = i as u8;
    k[1] = (i >> 8) as u8;
    k[2] = (i >> 16) as u8 | 0x80;
    k[15] = k[..15].iter().fold(x, |a, b| a ^ b);
    k
}

fn worker(a: &[String]) {
    // a = [routine, dir, script, extra…]
    let routine = a[0].as_str();
    let dir = PathBuf::from(&a[1]);
    let script: Vec<&str> = a[2].split(',').filter(|x| !x.is_empty() && *x != "-").collect();
    let param = |k: &str| a[3..].iter().find_map(|x| x.strip_prefix(&format!("{k}=")).map(str::to_string));
    match routine {
        "probe" => {
            // tracer self-test: one save-shaped sequence with a known canonical trace
            use std::io::Write;
            marker(&dir, "__BEGIN__");
            let r = (|| -> std::io::Result<()> {
                let mut f = std::fs::File::create(dir.join("p"))?;
                f.write_all(b"abc")?;
                f.sync_all()?;
                drop(f);
                std::fs::rename(dir.join("p"), dir.join("q"))?;
                std::fs::remove_file(dir.join("q"))
            })();
            marker(&dir, "__END__");
            println!("RESULT {}", if r.is_ok() { "ok" } else { "err" });
        }
        "idx" => {
            let rt = rt();
            let mut m = IndexManager::new(&dir);
            let _ = rt.block_on(m.load_all());
            for t in &script {
                let f: Vec<&str> = t.split(':').collect();
                match f.as_slice() {
                    ["add", k, ar, off, sz] => {
                        let _ = m.add_entry(&EncodingKey::from_bytes(key16(k)), ar.parse().unwrap_or(0), off.parse().unwrap_or(0), sz.parse().unwrap_or(0));
                    }
                    ["rm", k] => {
                        let _ = m.remove_entry(&EncodingKey::from_bytes(key16(k)));
                    }
                    ["bulk", sd, n] => {
                        // n distinct keys of one bucket (size-class histories: a sorted section of a chosen length)
                        let mut r = Rng::new(sd.parse::<u64>().unwrap_or(0) ^ 0xB01C);
                        for i in 0..n.parse::<u64>().unwrap_or(0) {
                            let k = bulk_key16(&mut r, i);
                            let _ = m.add_entry(&EncodingKey::from_bytes(k), r.below(1024) as u16, r.below(1 << 30) as u32, r.range(1, 1 << 20) as u32);
                        }
                    }
                    ["flush"] => {
                        let _ = m.flush_all_updates();
                    }
                    _ => {}
                }
            }
            println!("STATE {}", idx_state(&m));
            println!("BUCKETS {}", m.loaded_buckets().iter().map(|b| format!("{b:02x}")).collect::<Vec<_>>().join(","));
            // induced I/O errors for save_index's retry path:
            //   obst:<bucket>      the temporary name of that bucket exists as a DIRECTORY (File::create fails)
            //   fsize:<k>:<n>      RLIMIT_FSIZE = k bytes until the n-th SIGXFSZ, then lifted (writes fail with EFBIG)
            let mut obstacles = vec![];
            let mut fsize: Option<(u64, u64)> = None;
            for t in &script {
                let f: Vec<&str> = t.split(':').collect();
                match f.as_slice() {
                    ["obst", b] => {
                        let p = dir.join(format!("{b}00000001.tmp"));
                        if std::fs::create_dir(&p).is_ok() {
                            obstacles.push(p);
                        }
                    }
                    ["fsize", k, n] => fsize = Some((k.parse().unwrap_or(0), n.parse().unwrap_or(u64::MAX))),
                    _ => {}
                }
            }
            if let Some((k, n)) = fsize {
                fsize_limit::arm(k, n);
            }
            marker(&dir, "__BEGIN__");
            let r = m.save_all();
            marker(&dir, "__END__");
            fsize_limit::disarm();
            for p in obstacles {
                let _ = std::fs::remove_dir(p);
            }
            println!("RESULT {}", if r.is_ok() { "ok" } else { "err" });
        }
        "res" => {
            let name = param("name").unwrap_or_else(|| "key_state_v8".into());
            let uni: Vec<[u8; 16]> = param("uni").unwrap_or_default().split('/').filter(|x| !x.is_empty()).map(key16).collect();
            let p = dir.join(&name);
            let mut db = match ResidencyDb::load(&p) {
                Ok(d) => d,
                Err(_) => {
                    println!("RESULT loaderr");
                    return;
                }
            };
            let mut dirty = false;
            for t in &script {
                let f: Vec<&str> = t.split(':').collect();
                match f.as_slice() {
                    ["set", k] => {
                        db.mark_resident(&key16(k));
                        dirty = true;
                    }
                    ["unset", k] => {
                        db.mark_non_resident(&key16(k));
                        dirty = true;
                    }
                    ["span", k, o, l] => {
                        db.mark_span_non_resident(&key16(k), o.parse().unwrap_or(0), l.parse().unwrap_or(0));
                        dirty = true;
                    }
                    ["fill", sd, n, x] => {
                        // n distinct keys whose bytes XOR to x: all in one bucket (size-class histories:
                        // a chosen number of pages)
                        let x = u8::from_str_radix(x, 16).unwrap_or(0);
                        let mut r = Rng::new(sd.parse::<u64>().unwrap_or(0) ^ 0xF111);
                        for i in 0..n.parse::<u64>().unwrap_or(0) {
                            db.mark_resident(&fill_key16(&mut r, i, x));
                            dirty = true;
                        }
                    }
                    _ => {}
                }
            }
            println!("STATE {}", res_state(&db, &uni));
            println!("DIRTY {}", u8::from(dirty));
            marker(&dir, "__BEGIN__");
            let r = db.save();
            marker(&dir, "__END__");
            println!("RESULT {}", if r.is_ok() { "ok" } else { "err" });
        }
        "lru" => {
            let rt = rt();
            let cap: u32 = param("cap").and_then(|x| x.parse().ok()).unwrap_or(4);
            let mut m = LruManager::new(cap, dir.clone());
            for t in &script {
                let f: Vec<&str> = t.split(':').collect();
                match f.as_slice() {
                    ["cycle"] => {
                        if rt.block_on(m.run_cycle(0, 0)).is_err() {
                            println!("RESULT loaderr");
                            return;
                        }
                    }
                    ["touch", k] => {
                        let _ = m.touch(&key9(k));
                    }
                    ["rm", k] => {
                        let _ = m.remove(&key9(k));
                    }
                    ["bump"] => m.bump_generation(),
                    _ => {}
                }
            }
            println!("STATE {}", lru_state(&m));
            println!("GEN {} {}", m.generation(), m.prev_generation());
            marker(&dir, "__BEGIN__");
            let r = rt.block_on(m.checkpoint_to_disk());
            marker(&dir, "__END__");
            println!("RESULT {}", if r.is_ok() { "ok" } else { "err" });
        }
        "dc" => {
            let rt = rt();
            let sub: usize = param("sub").and_then(|x| x.parse().ok()).unwrap_or(0);
            let cfg = DiskCacheConfig::new(dir.clone()).with_subdirectories(sub > 0, sub);
            let cache: DiskCache<RawKey> = DiskCache::new(cfg).expect("disk cache");
            let mut res = "ok";
            for t in &script {
                let f: Vec<&str> = t.split(':').collect();
                if let ["put", k, v] = f.as_slice() {
                    let key = RawKey(String::from_utf8_lossy(&unhex(k).unwrap_or_default()).to_string());
                    let val = bytes::Bytes::from(dc_value(v));
                    marker(&dir, "__BEGIN__");
                    let r = rt.block_on(cache.put(key, val));
                    marker(&dir, "__END__");
                    if r.is_err() {
                        res = "err";
                    }
                }
            }
            println!("RESULT {res}");
        }
        "jrn" => {
            let mut b = match ExtractorCompactorBackup::load(&dir) {
                Ok(Some(b)) => b,
                Ok(None) => ExtractorCompactorBackup::new(&dir),
                Err(_) => {
                    println!("RESULT loaderr");
                    return;
                }
            };
            let mut res = "ok";
            for t in &script {
                let f: Vec<&str> = t.split(':').collect();
                if let ["rec", sg] = f.as_slice() {
                    marker(&dir, "__BEGIN__");
                    let r = b.record_segment(sg.parse().unwrap_or(0));
                    marker(&dir, "__END__");
                    if r.is_err() {
                        res = "err";
                    }
                }
            }
            println!("STATE {}", jrn_state(Some(&b)));
            println!("RESULT {res}");
        }
        _ => println!("RESULT bad-routine"),
    }
}

// ---------------------------------------------------------------------------------------------
// loaders (the REAL reopen path), run on a materialised directory
// ---------------------------------------------------------------------------------------------

#[derive(Clone, Debug, Default)]
struct Ctx {
    routine: String,
    cap: u32,
    name: String,
    sub: usize,
    /// residency: probe keys (hex32); disk cache: probe keys (text)
    universe: Vec<String>,
}

fn load_state(ctx: &Ctx, snap: &Snap) -> String {
    let td = tempfile::tempdir().expect("tempdir");
    let dir = td.path();
    materialise(dir, snap);
    let r = catch(AssertUnwindSafe(|| match ctx.routine.as_str() {
        "idx" => {
            let rt = rt();
            let mut m = IndexManager::new(dir);
            match rt.block_on(m.load_all()) {
                Ok(()) => idx_state(&m),
                Err(_) => "err".into(),
            }
        }
        "res" => {
            let uni: Vec<[u8; 16]> = ctx.universe.iter().map(|k| key16(k)).collect();
            match ResidencyDb::load(&dir.join(&ctx.name)) {
                Ok(db) => res_state(&db, &uni),
                Err(_) => "err".into(),
            }
        }
        "lru" => {
            let rt = rt();
            let mut m = LruManager::new(ctx.cap, dir.to_path_buf());
            match rt.block_on(m.run_cycle(0, 0)) {
                Ok(_) => {
                    // a fresh manager that found no checkpoint has generation 1: normalise to "empty"
                    if snap.keys().all(|n| !n.ends_with(".lru")) { format!("gen=none len={} order=", m.len()) } else { lru_state(&m) }
                }
                Err(_) => "err".into(),
            }
        }
        "dc" => {
            let rt = rt();
            let cfg = DiskCacheConfig::new(dir.to_path_buf()).with_subdirectories(ctx.sub > 0, ctx.sub);
            let cache: DiskCache<RawKey> = DiskCache::new(cfg).expect("disk cache");
            ctx.universe
                .iter()
                .map(|k| match rt.block_on(cache.get(&RawKey(k.clone()))) {
                    Ok(Some(b)) => format!("{k}={}:{:016x}", b.len(), fnv64(&b)),
                    Ok(None) => format!("{k}=none"),
                    Err(_) => format!("{k}=err"),
                })
                .collect::<Vec<_>>()
                .join(" ")
        }
        "jrn" => match ExtractorCompactorBackup::load(dir) {
            Ok(b) => jrn_state(b.as_ref()),
            Err(_) => "err".into(),
        },
        _ => "bad-routine".into(),
    }));
    r.unwrap_or_else(|_| "panic".into())
}

// ---------------------------------------------------------------------------------------------
// one history
// ---------------------------------------------------------------------------------------------

struct StepOut {
    pre: Vec<FsOp>,
    /// the net effect of `pre` on the directory, as tokens of the `pre` request line
    pre_diff: Vec<String>,
    trace: Vec<FsOp>,
    failed_writes: u64,
    old: Snap,
    new: Snap,
    expected: Option<String>,
    result: String,
    info: BTreeMap<String, String>,
}

fn run_worker(ctx: &Ctx, dir: &Path, script: &str) -> Result<StepOut, TraceErr> {
    let tracer = init_tracer();
    // strace -y prints resolved paths: work with the resolved name of the scratch directory
    let dir_c = dir.canonicalize().unwrap_or_else(|_| dir.to_path_buf());
    let dir = dir_c.as_path();
    let old = snapshot(dir);
    let base = dir.to_string_lossy().to_string();
    let wargs: Vec<String> = vec![
        ctx.routine.clone(),
        base.clone(),
        script.to_string(),
        format!("cap={}", ctx.cap),
        format!("name={}", ctx.name),
        format!("sub={}", ctx.sub),
        format!("uni={}", if ctx.routine == "res" { ctx.universe.join("/") } else { String::new() }),
    ];
    // strace sees the recorder's own log writes as well: for a huge value that is 200 MB of strace
    // text per save. The cross-check (a self-test of the recorder, not part of the property) is left
    // out for such a save when the recorder is available.
    let huge = ctx.routine == "dc" && script.split(':').nth(2).is_some_and(|v| dc_value_spec(v).0 >= XCHECK_MAX_VALUE);
    let with_strace = tracer.strace && !(huge && tracer.shim.is_some());
    if tracer.strace && !with_strace {
        XCHECK_SKIPPED.fetch_add(1, std::sync::atomic::Ordering::Relaxed);
    }
    let (stdout, stderr, shim_evs, strace_evs) = run_traced(tracer.shim.as_deref(), with_strace, &wargs).map_err(TraceErr::Infra)?;
    let mut info = BTreeMap::new();
    for l in stdout.lines() {
        if let Some((k, v)) = l.split_once(' ') {
            info.insert(k.to_string(), v.to_string());
        } else {
            info.insert(l.to_string(), String::new());
        }
    }
    let result = info.get("RESULT").cloned().unwrap_or_else(|| format!("crashed:{}", stderr.chars().take(200).collect::<String>()));
    // primary tracer first; the other one when the primary did not deliver
    let fold = |r: Option<Result<Vec<Ev>, TraceErr>>| r.map(|r| r.and_then(|evs| fold_events(&evs, &base)));
    let (a, b) = (fold(shim_evs), fold(strace_evs));
    let obs = match (a, b) {
        (Some(Ok(x)), Some(Ok(y))) => {
            XCHECK_RUNS.fetch_add(1, std::sync::atomic::Ordering::Relaxed);
            if x.ops != y.ops || x.pre != y.pre {
                let msg = format!("{} `{script}`: ld_preload `{}` vs strace `{}`", ctx.routine, short(&trace_text(&x.ops)), short(&trace_text(&y.ops)));
                eprintln!("c06: tracer cross-check difference (harness defect, not a property violation): {msg}");
                if let Ok(mut v) = XCHECK_DIFFS.lock() {
                    v.push(msg);
                }
            }
            x
        }
        (Some(Ok(x)), _) | (_, Some(Ok(x))) => x,
        (Some(Err(TraceErr::Protocol(e))), _) | (_, Some(Err(TraceErr::Protocol(e)))) => return Err(TraceErr::Protocol(e)),
        (Some(Err(e)), None) | (None, Some(Err(e))) => return Err(e),
        (Some(Err(TraceErr::Infra(e1))), Some(Err(TraceErr::Infra(e2)))) => return Err(TraceErr::Infra(format!("ld_preload: {e1}; strace: {e2}"))),
        (None, None) => return Err(TraceErr::Infra("no tracer".into())),
    };
    let new = snapshot(dir);
    // what the worker did to the directory before the traced save started (its own reopen removing
    // stale files, the saves inside flush_all_updates) is part of the old state
    let before = old;
    let old = image(&state_at(&durable(&before), &obs.pre, obs.pre.len(), 0), "asis");
    let mut pre_diff = vec![];
    for n in before.keys().chain(old.keys()).collect::<std::collections::BTreeSet<_>>() {
        match (before.get(n), old.get(n)) {
            (Some(_), None) => pre_diff.push(format!("unlink:{n}")),
            (a, Some(b)) if a != Some(b) => pre_diff.push(format!("put:{n}:{}", if b.is_empty() { "-".to_string() } else { hex(b) })),
            _ => {}
        }
    }
    Ok(StepOut { pre: obs.pre, pre_diff, trace: obs.ops, failed_writes: obs.failed_writes, old, new, expected: info.get("STATE").cloned(), result, info })
}

fn hexs(b: &[u8]) -> String {
    hex(b)
}

/// the part of the `step` request the Lean model reads.
fn model_params(ctx: &Ctx, script: &str, so: &StepOut) -> String {
    match ctx.routine.as_str() {
        "idx" => {
            let buckets = so.info.get("BUCKETS").cloned().unwrap_or_default();
            let mut v = vec!["idx".to_string(), "v=1".to_string()];
            for b in buckets.split(',').filter(|x| !x.is_empty()) {
                let fin = format!("{b}00000001.idx");
                let tmp = format!("{b}00000001.tmp");
                let (outs, saved, prefix) = idx_outcomes(&so.trace, &tmp);
                // the bytes of the save: the file it left; for a bucket whose three attempts all
                // failed, the longest prefix any attempt wrote (the model uses only prefixes of it)
                let bytes: &[u8] = if saved || outs.is_empty() { so.new.get(&fin).map(Vec::as_slice).unwrap_or(&[]) } else { &prefix };
                v.push(format!("{b}={}", hexs(bytes)));
                if outs.iter().any(|o| o != "k") {
                    v.push(format!("o{b}={}", outs.join(",")));
                }
            }
            v.join(" ")
        }
        "res" => {
            let dirty = so.info.get("DIRTY").cloned().unwrap_or_else(|| "0".into());
            format!("res name={} dirty={dirty} data={}", hexs(ctx.name.as_bytes()), hexs(so.new.get(&ctx.name).map(Vec::as_slice).unwrap_or(&[])))
        }
        "lru" => {
            let g = so.info.get("GEN").cloned().unwrap_or_else(|| "0 0".into());
            let (g, p) = g.split_once(' ').unwrap_or(("0", "0"));
            let gn: u64 = g.parse().unwrap_or(0);
            let fin = format!("{gn:016x}.lru");
            format!("lru gen={g} prev={p} data={}", hexs(so.new.get(&fin).map(Vec::as_slice).unwrap_or(&[])))
        }
        "dc" => {
            let f: Vec<&str> = script.split(':').collect();
            let key = f.get(1).copied().unwrap_or("-");
            let spec = f.get(2).copied().unwrap_or("0x0");
            let (n, sd, m) = dc_value_spec(spec);
            if n >= DC_COMPACT_FROM {
                format!("dc sub={} key={key} data=@{n}:{}:{m}", ctx.sub, sd ^ 0xC06)
            } else {
                format!("dc sub={} key={key} data={}", ctx.sub, hexs(&dc_value(spec)))
            }
        }
        "jrn" => {
            let f: Vec<&str> = script.split(':').collect();
            format!("jrn seg={}", f.get(1).copied().unwrap_or("0"))
        }
        _ => "?".into(),
    }
}

/// how the attempts of `save_index` on temporary file `tmp` ended, read off the observed calls:
/// (outcome tokens for the model, did the last attempt succeed, longest prefix written)
fn idx_outcomes(t: &[FsOp], tmp: &str) -> (Vec<String>, bool, Vec<u8>) {
    let mut outs = vec![];
    let mut saved = false;
    let mut longest: Vec<u8> = vec![];
    let mut open: Option<Vec<u8>> = None;
    for o in t {
        match o {
            FsOp::Create { name, ok } if name == tmp => {
                if *ok {
                    open = Some(vec![]);
                } else {
                    outs.push("c".to_string());
                    open = None;
                }
            }
            FsOp::Write { name, data } if name == tmp => {
                if let Some(w) = open.as_mut() {
                    w.extend_from_slice(data);
                }
            }
            FsOp::Rename { from, ok, .. } if from == tmp => {
                if *ok {
                    outs.push("k".to_string());
                    saved = true;
                } else {
                    outs.push("r".to_string());
                }
                if let Some(w) = open.take() {
                    if w.len() > longest.len() {
                        longest = w;
                    }
                }
            }
            FsOp::Unlink { name, .. } if name == tmp => {
                // remove_file(temp) after a failed attempt; an attempt still open failed while writing
                if let Some(w) = open.take() {
                    outs.push(format!("w{}", w.len()));
                    if w.len() > longest.len() {
                        longest = w;
                    }
                }
            }
            _ => {}
        }
    }
    (outs, saved, longest)
}

fn is_torn_journal(b: &[u8]) -> Option<&'static str> {
    if !b.is_empty() && b.len() < 5 {
        Some("journal-torn-header")
    } else if b.len() >= 5 && (b.len() - 5) % 4 != 0 {
        Some("journal-torn-entry")
    } else {
        None
    }
}

/// the objects of a logical state: the property is "for each such object, old or new".
fn objects(routine: &str, state: &str) -> BTreeMap<String, String> {
    let mut m = BTreeMap::new();
    if state == "err" || state == "panic" {
        m.insert("*".to_string(), state.to_string());
        return m;
    }
    match routine {
        "idx" => {
            let body = state.split_once(' ').map(|x| x.1).unwrap_or("");
            for e in body.split(',').filter(|x| !x.is_empty()) {
                let b = e.get(..2).unwrap_or("??").to_string();
                let slot: &mut String = m.entry(b).or_default();
                slot.push_str(e);
                slot.push(',');
            }
        }
        "dc" => {
            for t in state.split(' ').filter(|x| !x.is_empty()) {
                let (k, v) = t.split_once('=').unwrap_or((t, ""));
                m.insert(k.to_string(), v.to_string());
            }
        }
        _ => {
            m.insert("*".to_string(), state.to_string());
        }
    }
    m
}

/// "old" / "new" / "mixed" (every object old or new, not all the same side) / "neither"
fn classify(routine: &str, got: &str, old: &str, new: &str) -> (&'static str, Vec<String>) {
    if got == old {
        return ("old", vec![]);
    }
    if got == new {
        return ("new", vec![]);
    }
    let (g, o, n) = (objects(routine, got), objects(routine, old), objects(routine, new));
    let mut bad = vec![];
    let keys: std::collections::BTreeSet<&String> = g.keys().chain(o.keys()).chain(n.keys()).collect();
    for k in keys {
        let e = String::new();
        let (gv, ov, nv) = (g.get(k).unwrap_or(&e), o.get(k).unwrap_or(&e), n.get(k).unwrap_or(&e));
        if gv != ov && gv != nv {
            bad.push(k.clone());
        }
    }
    if bad.is_empty() { ("mixed", bad) } else { ("neither", bad) }
}

struct Hist {
    ctx: Ctx,
    dir: tempfile::TempDir,
    replay: Vec<String>,
    last: Option<StepOut>,
    cut: CutPolicy,
    thorough: bool,
    dead: bool,
}

impl Hist {
    fn begin(&mut self, s: &mut Session) {
        let mut line = format!(
            "begin {} cap={} name={} sub={} uni={} jver=1 jmax={}",
            self.ctx.routine,
            self.ctx.cap,
            self.ctx.name,
            self.ctx.sub,
            if self.ctx.universe.is_empty() { "-".to_string() } else { self.ctx.universe.join("/") },
            cascette_client_storage::storage::segment::MAX_SEGMENTS
        );
        if self.cut.coarse_above != COARSE_ALWAYS_ABOVE || self.cut.marks != DEFAULT_MARKS {
            // a size-class history: the cut policy is part of the case (a replay enumerates the same crash states)
            line.push_str(&format!(" coarse={} marks={}", self.cut.coarse_above, self.cut.marks.iter().map(|m| m.to_string()).collect::<Vec<_>>().join(",")));
        }
        s.line(&line, "ok");
        self.replay.push(line);
    }

    /// one save under strace + all its crash states under the real loader
    fn step(&mut self, s: &mut Session, script: &str) {
        if self.dead {
            return;
        }
        let timing = std::env::var_os("C06_TIMING").is_some();
        let t_step = std::time::Instant::now();
        let so = match run_worker(&self.ctx, self.dir.path(), script) {
            Ok(so) => so,
            Err(TraceErr::Infra(e)) => infra_exit(&format!("{} `{script}`: {e}", self.ctx.routine)),
            Err(TraceErr::Protocol(e)) => {
                let line = format!("step {script} | ?");
                s.line(&line, &format!("outside-protocol {e}"));
                self.replay.push(line.clone());
                s.oracle_fail("save-call-outside-protocol", &format!("{}: {e}", self.ctx.routine), &self.replay);
                self.dead = true;
                return;
            }
        };
        if timing {
            eprintln!("timing   worker+trace {:?}", t_step.elapsed());
        }
        if !so.pre_diff.is_empty() {
            // not part of the replay: the worker does it again
            s.line(&format!("pre {}", so.pre_diff.join(",")), "ok");
            s.tally(&format!("{}:history-changed-directory-before-save", self.ctx.routine));
        }
        let _ = &so.pre;
        let line = format!("step {script} | {}", model_params(&self.ctx, script, &so));
        s.line(&line, &trace_text(&so.trace));
        // replay lines carry only the script (the model parameters are recomputed)
        self.replay.push(format!("step {script} | ?"));
        s.tally(&format!("{}:steps", self.ctx.routine));
        s.tally_n(&format!("{}:ops", self.ctx.routine), so.trace.len() as u64);
        if so.trace.iter().any(|o| matches!(o, FsOp::Unlink { ok: false, .. } | FsOp::Create { ok: false, .. } | FsOp::Rename { ok: false, .. })) {
            s.tally(&format!("{}:failed-call-in-trace", self.ctx.routine));
        }
        if so.result != "ok" {
            s.tally(&format!("{}:save-{}", self.ctx.routine, so.result.split(':').next().unwrap_or("?")));
        }
        if so.failed_writes > 0 {
            s.tally_n(&format!("{}:failed-write-calls", self.ctx.routine), so.failed_writes);
        }
        let routine = self.ctx.routine.clone();
        let old_d = durable(&so.old);
        // 1. the simulated file system reproduces the real end state
        let end = image(&state_at(&old_d, &so.trace, so.trace.len(), 0), "asis");
        if end != so.new {
            let diff: Vec<&String> = end.keys().chain(so.new.keys()).filter(|n| end.get(*n) != so.new.get(*n)).collect();
            s.oracle_fail(&format!("{routine}-trace-replay-mismatch"), &format!("applying the observed operations to the old directory does not give the directory the save left behind (files {diff:?}): the save wrote through calls the protocol does not have"), &self.replay);
        }
        // 1b. bookkeeping for the retry path (tallies only: the property does not forbid a leftover
        //     temporary file, it requires later loads to ignore it - that is what the crash states test)
        if matches!(routine.as_str(), "idx" | "res" | "lru") && so.new.keys().any(|n| n.ends_with(".tmp") && !so.old.contains_key(n)) {
            s.tally(&format!("{routine}:save-left-temp-file"));
        }
        if routine == "idx" {
            let tmps: std::collections::BTreeSet<String> = so.trace.iter().filter_map(|o| match o { FsOp::Create { name, .. } if name.ends_with(".tmp") => Some(name.clone()), _ => None }).collect();
            for tmp in tmps {
                let (outs, saved, _) = idx_outcomes(&so.trace, &tmp);
                let failed = outs.iter().filter(|o| *o != "k").count();
                if failed > 0 {
                    s.tally(&format!("idx:bucket-save-{failed}-failed-attempt(s)-then-{}", if saved { "ok" } else { "err" }));
                }
            }
        }
        // 2. old / new logical states
        let old_state = load_state(&self.ctx, &so.old);
        let new_state = load_state(&self.ctx, &so.new);
        if let Some(exp) = &so.expected {
            let comparable = match routine.as_str() {
                // a checkpoint below an existing higher generation is invisible by design of the loader
                "lru" => {
                    let g: u64 = so.info.get("GEN").and_then(|g| g.split(' ').next().map(str::to_string)).and_then(|g| g.parse().ok()).unwrap_or(0);
                    so.new.keys().filter_map(|n| n.strip_suffix(".lru")).filter_map(|h| u64::from_str_radix(h, 16).ok()).all(|x| x <= g)
                }
                _ => true,
            };
            if so.result == "ok" && comparable && *exp != new_state {
                let sig = match routine.as_str() {
                    "jrn" => {
                        let ob = so.old.get(&self.ctx.name).map(Vec::as_slice).unwrap_or(&[]);
                        // whole header + whole records, but the header bytes are not the ones record_segment
                        // writes (they came back as zeros / stale after a crash: never synced, never rewritten)
                        let hdr_bad = ob.len() >= 5 && (ob.len() - 5) % 4 == 0 && (ob[0] != 1 || u32::from_le_bytes([ob[1], ob[2], ob[3], ob[4]]) != u32::from(cascette_client_storage::storage::segment::MAX_SEGMENTS));
                        is_torn_journal(ob).map(|x| x.to_string()).unwrap_or_else(|| if hdr_bad { "journal-header-not-synced".into() } else { "jrn-completed-save-reload-differs".into() })
                    }
                    r => format!("{r}-completed-save-reload-differs"),
                };
                s.oracle_fail(&sig, &format!("{routine}: the save returned Ok with in-memory state `{}` but a fresh load of the directory gives `{}` (old file length {:?})", short(exp), short(&new_state), so.old.get(&self.ctx.name).map(Vec::len)), &self.replay);
            }
        }
        // 3. every crash state
        let mut seen: HashSet<u64> = HashSet::new();
        let mut reported: HashSet<String> = HashSet::new();
        // a save with induced failures repeats its (large) writes up to three times: cut them coarser
        let pol = if script.contains("fsize:") || script.contains("obst:") { self.cut.with_gran(if self.thorough { 512 } else { 4096 }) } else { self.cut.clone() };
        let mut cs = cuts(&so.trace, &pol);
        if !self.thorough && cs.len() > 1500 {
            // quick tier: a save of several large files (64 KiB alignment padding + update section per
            // bucket) is cut every 256 bytes instead of every 64 (first/last bytes of every write stay)
            cs = cuts(&so.trace, &pol.with_gran(pol.gran.max(256)));
        }
        let old_listing = listing_image(&so.old);
        let mut nstates = 0u64;
        let mut torn_visible = 0u64;
        for (i, k) in &cs {
            let st = state_at(&old_d, &so.trace, *i, *k);
            let dirty = st.values().any(|f| f.synced < f.data.len());
            for v in VARIANTS {
                if v != "asis" && !dirty {
                    continue;
                }
                let img = image(&st, v);
                let key = fnv64(listing_image(&img).as_bytes());
                if !seen.insert(key) {
                    continue;
                }
                nstates += 1;
                let got = load_state(&self.ctx, &img);
                // K for the LOADERS of the model on exactly the crash states: journalLoad / lruLoad
                match routine.as_str() {
                    "jrn" => {
                        let c = match img.get(&self.ctx.name) {
                            None => "none".to_string(),
                            Some(b) if b.is_empty() => "-".to_string(),
                            Some(b) => hex(b),
                        };
                        s.line(&format!("jload {c}"), &got);
                    }
                    "lru" => {
                        let listing: Vec<String> = img
                            .iter()
                            .map(|(n, b)| format!("{n}:{}", u8::from(cascette_client_storage::lru::lru_file::deserialize(b).is_some())))
                            .collect();
                        let resp = if got == "err" || got == "panic" {
                            got.clone()
                        } else if got.starts_with("gen=none") {
                            "fresh".to_string()
                        } else {
                            format!("loaded {}", got.strip_prefix("gen=").and_then(|x| x.split(' ').next()).unwrap_or("?"))
                        };
                        s.line(&format!("lload {}", if listing.is_empty() { "-".to_string() } else { listing.join(",") }), &resp);
                    }
                    _ => {}
                }
                let (verdict, bad_objects) = classify(&routine, &got, &old_state, &new_state);
                s.tally(&format!("{routine}:crash-state-{verdict}"));
                s.case(Some(&format!("{routine} {script} {old_listing} {i} {k} {v}")));
                if verdict == "neither" {
                    torn_visible += 1;
                    let sig = self.sig_for(&so, &img, &got, v, script, &bad_objects);
                    if reported.insert(sig.clone()) {
                        let mut rp = self.replay.clone();
                        rp.push(format!("# failing crash state: after {i} operation(s) + {k} byte(s) of the next write, un-synced content `{v}`"));
                        s.oracle_fail(&sig, &format!("{routine}: object(s) {bad_objects:?} neither old nor new: crash after {i} op(s) + {k} byte(s) of op {i} [{}], un-synced data {v}: reopening gives `{}`; before the save `{}`, after it `{}`; directory {}", so.trace.get(*i).map(op_text).unwrap_or_else(|| "end".into()).chars().take(80).collect::<String>(), short(&got), short(&old_state), short(&new_state), short(&listing_image(&img))), &rp);
                    }
                }
            }
        }
        s.tally_n(&format!("{routine}:crash-states"), nstates);
        if timing {
            eprintln!("timing   {nstates} crash states done at {:?}", t_step.elapsed());
        }
        let _ = torn_visible;
        // 4. tie the crash-state builder to Spec/Fs: the state at every operation boundary and at
        //    two cuts inside every write
        let mut shown = 0;
        for (i, k) in &cs {
            // (the model side copies the written prefix: the last-byte cut of a huge write is left to the crash states)
            let inside_ok = *k == 0 || *k == 1 || matches!(so.trace.get(*i), Some(FsOp::Write { data, .. }) if *k == data.len() - 1 && data.len() < HUGE_WRITE);
            if inside_ok && shown < 40 {
                shown += 1;
                let st = state_at(&old_d, &so.trace, *i, *k);
                s.line(&format!("state {i} {k}"), &listing_state(&st));
            }
        }
        if timing {
            eprintln!("timing   step done at {:?}", t_step.elapsed());
        }
        self.last = Some(so);
    }

    fn sig_for(&self, so: &StepOut, img: &Snap, got: &str, variant: &str, script: &str, bad: &[String]) -> String {
        match self.ctx.routine.as_str() {
            "lru" => {
                // newest generation on disk is neither the old nor the new complete file
                let newest = img.keys().filter(|n| n.ends_with(".lru")).max().cloned();
                let torn = newest.as_ref().is_some_and(|n| img.get(n) != so.old.get(n) && img.get(n) != so.new.get(n));
                if got == "err" && torn { "lru-checkpoint-torn-newest-generation".into() } else if got == "err" { "lru-reopen-fails".into() } else { "lru-neither-old-nor-new".into() }
            }
            "jrn" => {
                let b = img.get(&self.ctx.name).map(Vec::as_slice).unwrap_or(&[]);
                if variant == "zeros" || variant == "stale" {
                    "journal-append-not-synced".into()
                } else if let Some(t) = is_torn_journal(b) {
                    format!("{t}-accepted")
                } else {
                    "jrn-neither-old-nor-new".into()
                }
            }
            "dc" => {
                let f: Vec<&str> = script.split(':').collect();
                let key = String::from_utf8_lossy(&unhex(f.get(1).copied().unwrap_or("-")).unwrap_or_default()).to_string();
                // the temporary name write_file derives for this key
                let tmp = Path::new(&key).with_extension("tmp").to_string_lossy().to_string();
                if tmp == key && bad.iter().all(|b| *b == key) {
                    // the "temporary" file IS the entry: written in place
                    "diskcache-tmp-suffix-key-written-in-place".into()
                } else if tmp != key && bad.iter().all(|b| *b == tmp) {
                    // the only broken object is the key whose file is this save's temporary file
                    "diskcache-leftover-tmp-read-as-key".into()
                } else {
                    "dc-neither-old-nor-new".into()
                }
            }
            r => {
                if got == "err" || got == "panic" { format!("{r}-reopen-fails") } else { format!("{r}-neither-old-nor-new") }
            }
        }
    }

    /// continue the history from a crash image of the last save
    fn resume(&mut self, s: &mut Session, i: usize, k: usize, variant: &str) {
        if self.dead {
            return;
        }
        let Some(so) = &self.last else { return };
        let st = state_at(&durable(&so.old), &so.trace, i, k);
        let img = image(&st, variant);
        let line = format!("resume {i} {k} {variant}");
        s.line(&line, &listing_image(&img));
        self.replay.push(line);
        s.tally(&format!("{}:resume-{variant}", self.ctx.routine));
        // rebuild the working directory from the image
        let ctxname = self.ctx.routine.clone();
        let _ = ctxname;
        let nd = tempfile::tempdir().expect("tempdir");
        materialise(nd.path(), &img);
        self.dir = nd;
    }
}

fn short(s: &str) -> String {
    if s.len() > 160 { format!("{}…({} chars)", &s[..160], s.len()) } else { s.to_string() }
}

// ---------------------------------------------------------------------------------------------
// generators
// ---------------------------------------------------------------------------------------------

fn gen_key16(r: &mut Rng, same_bucket: bool) -> String {
    let mut k = r.bytes(16);
    if same_bucket {
        // XOR fold of the first 9 bytes constant (bucket 0x0c family): pairs equal, 9th byte fixed
        for j in [0usize, 2, 4, 6] {
            k[j + 1] = k[j];
        }
        k[8] = 0xC0;
    }
    if k[..9].iter().all(|b| *b == 0) {
        k[0] = 1;
    }
    hex(&k)
}

fn pick_resume(r: &mut Rng, t: &[FsOp], pol: &CutPolicy) -> (usize, usize, &'static str) {
    let cs = cuts(t, pol);
    let (i, k) = cs[r.below(cs.len() as u64) as usize];
    let v = *r.pick(&["asis", "trunc", "zeros"]);
    (i, k, v)
}

fn gen_history(s: &mut Session, r: &mut Rng, routine: &str, thorough: bool, variant_no: u64) {
    let gran = if thorough { 64 } else { 64 };
    let mut ctx = Ctx { routine: routine.into(), cap: 4, name: String::new(), sub: 0, universe: vec![] };
    let mut scripts: Vec<String> = vec![];
    let steps = r.range(2, if thorough { 5 } else { 3 });
    match routine {
        "idx" => {
            let mut present: Vec<String> = vec![];
            for _ in 0..steps {
                let mut toks = vec![];
                for _ in 0..r.range(1, 5) {
                    let sb = r.chance(1, 2) || (variant_no % 4 == 3 && toks.is_empty());
                    let k = gen_key16(r, sb);
                    toks.push(format!("add:{k}:{}:{}:{}", r.below(1024), r.below(1 << 30), r.range(1, 1 << 20)));
                    present.push(k);
                }
                if !present.is_empty() && r.chance(1, 3) {
                    toks.push(format!("rm:{}", r.pick(&present).clone()));
                }
                // save_index's retry path: induced write failures (variant 1) / create failures (variant 3)
                let inject = variant_no % 4 == 1 && (scripts.len() == 1 || r.chance(1, 2));
                // the injected step of every such history keeps its updates pending: the file then has the
                // 64 KiB alignment padding and the update section, i.e. several large writes that can fail
                if r.chance(2, 3) && !(inject && scripts.len() == 1) {
                    toks.push("flush".into());
                }
                if inject {
                    let k = if scripts.len() == 1 { *r.pick(&[40u64, 65536, 70000, 96255]) } else { *r.pick(&[0u64, 1, 8, 39, 40, 41, 57, 100, 4096, 65536, 70000, 96255]) };
                    let n = *r.pick(&[1u64, 1, 2, 2, 3, 6]);
                    toks.push(format!("fsize:{k}:{n}"));
                }
                if variant_no % 4 == 3 && r.chance(1, 2) {
                    toks.push("obst:0c".into());
                }
                scripts.push(toks.join(","));
            }
        }
        "res" => {
            ctx.name = (*r.pick(&["key_state_v8", "residency.db", "kmt.v8.dat"])).to_string();
            ctx.universe = (0..6).map(|_| hex(&r.bytes(16))).collect();
            for j in 0..steps {
                let mut toks = vec![];
                if !(j > 0 && r.chance(1, 5)) {
                    for _ in 0..r.range(1, 4) {
                        let k = r.pick(&ctx.universe).clone();
                        toks.push(match r.below(4) {
                            0 => format!("unset:{k}"),
                            1 => format!("span:{k}:{}:{}", r.below(1000), r.range(1, 1000)),
                            _ => format!("set:{k}"),
                        });
                    }
                    if r.chance(1, 4) {
                        // more than one page in a bucket
                        for _ in 0..30 {
                            toks.push(format!("set:{}", hex(&r.bytes(16))));
                        }
                    }
                }
                scripts.push(if toks.is_empty() { "-".into() } else { toks.join(",") });
            }
        }
        "lru" => {
            ctx.cap = r.range(1, 6) as u32;
            let keys: Vec<String> = (0..6).map(|_| { let mut k = r.bytes(9); k[0] |= 1; hex(&k) }).collect();
            for j in 0..steps {
                let mut toks = vec![];
                if j > 0 && !r.chance(1, 6) {
                    toks.push("cycle".to_string());
                }
                for _ in 0..r.range(1, 5) {
                    if r.chance(1, 5) { toks.push(format!("rm:{}", r.pick(&keys))); } else { toks.push(format!("touch:{}", r.pick(&keys))); }
                }
                match r.below(6) {
                    0 => {}
                    1 => { toks.push("bump".into()); toks.push("bump".into()); }
                    _ => toks.push("bump".into()),
                }
                scripts.push(toks.join(","));
            }
        }
        "dc" => {
            ctx.sub = *r.pick(&[0usize, 0, 1, 2]);
            let names = ["config", "data.000", "data.001", "a.b.c", ".hidden", "v1", "build-123.cfg", "x_y", "cdn.index"];
            let mut uni: Vec<String> = (0..3).map(|_| (*r.pick(&names)).to_string()).collect();
            uni.sort();
            uni.dedup();
            // the boundary of "leftover temporary files are ignored": a key that looks like a temporary name
            if variant_no % 4 == 2 {
                uni = vec!["x".into(), "x.tmp".into()];
                ctx.sub = 0;
            }
            if variant_no % 4 == 3 {
                uni = vec!["blob.tmp".into()];
                ctx.sub = 0;
            }
            ctx.universe = uni.clone();
            for j in 0..steps {
                let k = if variant_no % 4 == 2 { "x".to_string() } else { r.pick(&uni).clone() };
                let len = match r.below(6) { 0 => 0, 1 => 1, 2 => 64, 3 => r.range(65, 300), 4 => r.range(301, 5000), _ => r.range(5000, 70000) };
                scripts.push(format!("put:{}:{}x{}", hex(k.as_bytes()), len, r.below(1000) + j));
            }
        }
        "jrn" => {
            ctx.name = "extract_bu".into();
            for _ in 0..steps {
                scripts.push(format!("rec:{}", match r.below(5) { 0 => 0, 1 => 0x3FF, 2 => 65535, _ => r.range(1, 1000) }));
            }
        }
        _ => return,
    }
    let mut h = Hist { ctx, dir: tempfile::tempdir().expect("tempdir"), replay: vec![], last: None, cut: CutPolicy::fine(gran), thorough, dead: false };
    h.begin(s);
    let n = scripts.len();
    for (j, sc) in scripts.iter().enumerate() {
        h.step(s, sc);
        if h.dead {
            break;
        }
        if j + 1 < n {
            let tr = h.last.as_ref().map(|x| x.trace.clone()).unwrap_or_default();
            // journal: aim at the torn-header / torn-entry boundary in some histories
            if routine == "jrn" && variant_no % 3 == 1 && j == 0 {
                // first record writes header (1 + 4 bytes) then the entry: cut inside the 9 bytes
                let widx = tr.iter().position(|o| matches!(o, FsOp::Write { .. })).unwrap_or(0);
                let k = if variant_no % 2 == 1 { 3 } else { 7 };
                h.resume(s, widx, k, "asis");
            } else if !tr.is_empty() && r.chance(1, 3) {
                let (i, k, v) = pick_resume(r, &tr, &h.cut);
                h.resume(s, i, k, v);
            }
            // a resumed image that is itself broken ends the history (the failure is already reported)
            if let Some(so) = &h.last {
                let _ = so;
            }
        }
    }
}


// ---------------------------------------------------------------------------------------------
// size classes: a save routine that treats objects differently by SIZE (a threshold for "large"
// values, a buffer that is bypassed, an alignment that adds a section) has a boundary at every size
// constant of its source. The constants are read from the source files of the save routines
// (integer literal products / shifts and the named constants made of them), plus the constants of
// the environment that are not in the source (page size, std's BufWriter, tokio's file buffer).
// Every constant c gives objects of c-1, c and c+1 bytes (disk cache: the value itself; the other
// routines: entry counts that put the file just below / above c).
// ---------------------------------------------------------------------------------------------

fn repo_root() -> PathBuf {
    PathBuf::from(std::env::var("VERIF_REPO").unwrap_or_else(|_| "/repo".into()))
}

#[derive(Clone, Debug, PartialEq)]
enum Tok {
    Num(u64),
    Ident(String),
    Mul,
    Shl,
    Other(char),
}

fn lex_rust(text: &str) -> Vec<Tok> {
    let b = text.as_bytes();
    let mut i = 0;
    let mut out = vec![];
    while i < b.len() {
        let c = b[i];
        if c.is_ascii_whitespace() {
            i += 1;
        } else if c == b'/' && b.get(i + 1) == Some(&b'/') {
            while i < b.len() && b[i] != b'\n' {
                i += 1;
            }
        } else if c == b'/' && b.get(i + 1) == Some(&b'*') {
            i += 2;
            while i + 1 < b.len() && !(b[i] == b'*' && b[i + 1] == b'/') {
                i += 1;
            }
            i += 2;
        } else if c == b'"' {
            i += 1;
            while i < b.len() && b[i] != b'"' {
                if b[i] == b'\\' {
                    i += 1;
                }
                i += 1;
            }
            i += 1;
        } else if c == b'\'' {
            // char literal ('x', '\n', '\'') or a lifetime ('a)
            if b.get(i + 1) == Some(&b'\\') {
                i += 2;
                while i < b.len() && b[i] != b'\'' {
                    i += 1;
                }
                i += 1;
            } else if b.get(i + 2) == Some(&b'\'') {
                i += 3;
            } else {
                i += 1;
            }
        } else if c.is_ascii_digit() {
            let start = i;
            let (radix, mut j) = if c == b'0' && matches!(b.get(i + 1), Some(b'x' | b'X')) {
                (16, i + 2)
            } else if c == b'0' && matches!(b.get(i + 1), Some(b'o')) {
                (8, i + 2)
            } else if c == b'0' && matches!(b.get(i + 1), Some(b'b')) && matches!(b.get(i + 2), Some(b'0' | b'1' | b'_')) {
                (2, i + 2)
            } else {
                (10, i)
            };
            let mut v: Option<u64> = Some(0);
            let mut digits = 0;
            while j < b.len() && (b[j] == b'_' || (b[j] as char).is_digit(radix)) {
                if b[j] != b'_' {
                    v = v.and_then(|v| v.checked_mul(u64::from(radix))).and_then(|v| v.checked_add(u64::from((b[j] as char).to_digit(radix).unwrap_or(0))));
                    digits += 1;
                }
                j += 1;
            }
            // a float: `1.5`, `1e3`, `2f64`
            let mut float = radix == 10 && j + 1 < b.len() && b[j] == b'.' && b[j + 1].is_ascii_digit();
            let sfx = j;
            while j < b.len() && (b[j].is_ascii_alphanumeric() || b[j] == b'_') {
                j += 1;
            }
            let suffix = &text[sfx..j];
            if radix == 10 && (suffix.starts_with('f') || suffix.starts_with('e') || suffix.starts_with('E')) {
                float = true;
            }
            if float {
                while j < b.len() && (b[j].is_ascii_alphanumeric() || b[j] == b'_' || b[j] == b'.') {
                    j += 1;
                }
                out.push(Tok::Other('f'));
            } else if digits > 0 {
                match v {
                    Some(v) => out.push(Tok::Num(v)),
                    None => out.push(Tok::Other('n')),
                }
            } else {
                out.push(Tok::Other('n'));
            }
            i = j.max(start + 1);
        } else if c.is_ascii_alphabetic() || c == b'_' {
            let start = i;
            while i < b.len() && (b[i].is_ascii_alphanumeric() || b[i] == b'_') {
                i += 1;
            }
            out.push(Tok::Ident(text[start..i].to_string()));
        } else if c == b'*' && b.get(i + 1) != Some(&b'=') {
            out.push(Tok::Mul);
            i += 1;
        } else if c == b'<' && b.get(i + 1) == Some(&b'<') && b.get(i + 2) != Some(&b'=') {
            out.push(Tok::Shl);
            i += 2;
        } else {
            out.push(Tok::Other(c as char));
            i += 1;
        }
    }
    out
}

/// value of the product/shift chain that starts at token `i` (factors: literals and the named
/// constants in `env`; `as T` casts skipped); returns (value, index after the chain)
fn eval_chain(t: &[Tok], i: usize, env: &BTreeMap<String, u64>) -> Option<(u64, usize)> {
    let factor = |j: usize| -> Option<u64> {
        match t.get(j) {
            Some(Tok::Num(v)) => Some(*v),
            Some(Tok::Ident(n)) => env.get(n).copied(),
            _ => None,
        }
    };
    let mut v = factor(i)?;
    let mut j = i + 1;
    loop {
        if matches!(t.get(j), Some(Tok::Ident(a)) if a == "as") && matches!(t.get(j + 1), Some(Tok::Ident(_))) {
            j += 2;
            continue;
        }
        match (t.get(j), factor(j + 1)) {
            (Some(Tok::Mul), Some(f)) => {
                v = v.checked_mul(f)?;
                j += 2;
            }
            (Some(Tok::Shl), Some(f)) => {
                v = if f < 64 { v.checked_mul(1u64 << f)? } else { return None };
                j += 2;
            }
            _ => break,
        }
    }
    Some((v, j))
}

/// the size-like constants of a Rust source text (its `#[cfg(test)]` tail dropped)
fn scan_constants(text: &str) -> Vec<u64> {
    let text = text.split("#[cfg(test)]").next().unwrap_or("");
    let t = lex_rust(text);
    // named constants made of literal chains (two rounds: a constant may use a later one)
    let mut env: BTreeMap<String, u64> = BTreeMap::new();
    for _ in 0..2 {
        for i in 0..t.len() {
            if !matches!(&t[i], Tok::Ident(k) if k == "const" || k == "static") {
                continue;
            }
            let Some(Tok::Ident(name)) = t.get(i + 1) else { continue };
            let Some(eq) = (i + 2..(i + 12).min(t.len())).find(|j| t[*j] == Tok::Other('=')) else { continue };
            if let Some((v, end)) = eval_chain(&t, eq + 1, &env) {
                if t.get(end) == Some(&Tok::Other(';')) {
                    env.insert(name.clone(), v);
                }
            }
        }
    }
    let mut out = vec![];
    let mut i = 0;
    while i < t.len() {
        let mid_chain = i > 0 && matches!(t[i - 1], Tok::Mul | Tok::Shl);
        match eval_chain(&t, i, &env) {
            Some((v, end)) if !mid_chain => {
                out.push(v);
                i = end;
            }
            _ => i += 1,
        }
    }
    out.sort_unstable();
    out.dedup();
    out
}

/// the size constants for one routine: (constants in [lo, hi], how many came from the source scan)
fn size_constants(routine: &str, thorough: bool) -> (Vec<usize>, usize) {
    let (files, fixed, lo, hi): (&[&str], &[usize], usize, usize) = match routine {
        // fixed: page size, a common block size, 1 MiB
        "dc" => (&["crates/cascette-cache/src/disk_cache.rs"], &[4096, 65536, 1 << 20], 256, if thorough { 64 << 20 } else { 32 << 20 }),
        // fixed: std::io::BufWriter's default capacity (larger writes bypass the buffer)
        "idx" => (&["crates/cascette-client-storage/src/index/mod.rs", "crates/cascette-client-storage/src/index/update.rs"], &[8192], 4096, if thorough { 512 << 10 } else { 64 << 10 }),
        // fixed: two pages (the second page of a bucket begins), BufWriter's capacity, 64 KiB
        "res" => (&["crates/cascette-client-storage/src/kmt/key_state.rs"], &[2048, 8192, 65536], 1024, if thorough { 256 << 10 } else { 64 << 10 }),
        // fixed: page size, 64 KiB, tokio::fs::File's maximal buffer (2 MiB; thorough)
        "lru" => (&["crates/cascette-client-storage/src/lru/mod.rs", "crates/cascette-client-storage/src/lru/lru_file.rs"], &[4096, 65536, 2 << 20], 256, if thorough { 2 << 20 } else { 64 << 10 }),
        _ => (&[], &[], 0, 0),
    };
    let mut v: Vec<usize> = fixed.iter().copied().filter(|c| *c >= lo && *c <= hi).collect();
    let mut scanned = 0;
    for f in files {
        if let Ok(text) = std::fs::read_to_string(repo_root().join(f)) {
            for c in scan_constants(&text) {
                if let Ok(c) = usize::try_from(c) {
                    if c >= lo && c <= hi && !v.contains(&c) {
                        v.push(c);
                        scanned += 1;
                    }
                }
            }
        }
    }
    v.sort_unstable();
    (v, scanned)
}

/// the histories of the size-class family of one routine
fn gen_size_classes(s: &mut Session, r: &mut Rng, routine: &str, thorough: bool) {
    let (consts, scanned) = size_constants(routine, thorough);
    s.tally_n(&format!("{routine}:size-constants-from-source"), scanned as u64);
    if scanned == 0 {
        s.tally(&format!("{routine}:no-size-constant-of-the-source-in-range"));
    }
    // quick tier: the largest constants first, a bounded number of them
    let keep = if thorough { 12 } else if routine == "dc" { 6 } else { 4 };
    let chosen: Vec<usize> = consts.iter().rev().take(keep).rev().copied().collect();
    let cut = CutPolicy { gran: 64, coarse_above: 1024, marks: consts.clone() };
    let master_seed = r.below(1000);
    let master_len = consts.iter().copied().max().unwrap_or(0) + 1;
    for &c in &chosen {
        // (begin parameters, scripts) of every history for constant c
        let mut hists: Vec<(Ctx, Vec<String>)> = vec![];
        let base = Ctx { routine: routine.into(), cap: 4, name: String::new(), sub: 0, universe: vec![] };
        match routine {
            "dc" => {
                let names = ["config", "data.000", "a.b.c", "v1", "build-123.cfg", "cdn.index"];
                // long values are tails of ONE master stream per run (the model side builds it once)
                let spec = |len: usize, seed: u64, j: u64| if len >= DC_COMPACT_FROM { format!("{len}t{master_seed}m{master_len}") } else { format!("{len}x{}", seed + j) };
                let mut mk = |r: &mut Rng, sub: usize, lens: &[usize]| {
                    let k = (*r.pick(&names)).to_string();
                    let mut uni = vec![k.clone(), (*r.pick(&names)).to_string()];
                    uni.sort();
                    uni.dedup();
                    let seed = r.below(1000);
                    let scripts = lens.iter().enumerate().map(|(j, l)| format!("put:{}:{}", hex(k.as_bytes()), spec(*l, seed, j as u64))).collect();
                    hists.push((Ctx { sub, universe: uni, ..base.clone() }, scripts));
                };
                let sub = *r.pick(&[0usize, 0, 1, 2]);
                if c >= HUGE_WRITE && !thorough {
                    // every crash state of a put that replaces a huge value costs two huge files:
                    // the quick tier replaces a small value by c bytes and puts c-1 and c+1 on their own
                    mk(r, sub, &[100, c]);
                    mk(r, 0, &[c - 1]);
                    mk(r, 2, &[c + 1]);
                } else {
                    mk(r, sub, &[c - 1, c, c + 1]);
                }
                if thorough {
                    mk(r, 2, &[100, c]);
                    mk(r, 0, &[c + 1, c - 1]);
                }
            }
            "idx" => {
                // sorted section: 0x28 bytes of header blocks + 18 bytes per entry
                let n_lo = c.saturating_sub(0x28) / 18;
                let sd = r.below(1000);
                let add = |r: &mut Rng| format!("add:{}:{}:{}:{}", gen_key16(r, true), r.below(1024), r.below(1 << 30), r.range(1, 1 << 20));
                // just below c; one more entry: just above c; then a pending update (alignment padding + update section)
                hists.push((base.clone(), vec![format!("bulk:{sd}:{n_lo},flush"), format!("{},flush", add(r)), add(r)]));
                if thorough {
                    hists.push((base.clone(), vec![format!("bulk:{sd}:{},flush", n_lo + 1), add(r), format!("{},flush", add(r))]));
                    if c == *consts.iter().max().unwrap_or(&0) {
                        // the branch of write_index_to_file without alignment padding: a sorted section that
                        // ends exactly on a multiple of the update-section alignment (0x28 + 18 n = 0 mod 64 KiB)
                        if let Some(n) = (1..40_000usize).find(|n| (0x28 + 18 * n) % 0x1_0000 == 0) {
                            hists.push((base.clone(), vec![format!("bulk:{sd}:{n},flush"), add(r)]));
                        }
                    }
                }
            }
            "res" => {
                // one bucket: 5 bytes of bucket header + 1024 bytes per page of 25 entries
                let p_lo = (c.saturating_sub(5).div_ceil(1024)).saturating_sub(1);
                let n_lo = (25 * p_lo).max(1);
                let x = r.byte();
                let name = (*r.pick(&["key_state_v8", "residency.db"])).to_string();
                let uni: Vec<String> = (0..4).map(|_| hex(&r.bytes(16))).collect();
                let ctx = Ctx { name, universe: uni.clone(), ..base.clone() };
                let (s1, s2) = (r.below(1000), 1000 + r.below(1000));
                // p_lo full pages (just below c); one more entry in the bucket: a new page (just above c)
                hists.push((ctx.clone(), vec![format!("fill:{s1}:{n_lo}:{x:02x}"), format!("fill:{s2}:1:{x:02x}")]));
                if thorough {
                    hists.push((ctx, vec![format!("fill:{s1}:{}:{x:02x}", n_lo + 1), format!("unset:{}", uni[0]), format!("fill:{s2}:30:{x:02x}")]));
                }
            }
            "lru" => {
                // 0x1C bytes of header + 0x14 bytes per slot of the table (all `capacity` slots are written)
                let cap_lo = (c.saturating_sub(0x1C) / 0x14).max(1);
                let keys: Vec<String> = (0..5).map(|_| { let mut k = r.bytes(9); k[0] |= 1; hex(&k) }).collect();
                let touch = |r: &mut Rng| format!("touch:{}", r.pick(&keys));
                hists.push((Ctx { cap: cap_lo as u32, ..base.clone() }, vec![format!("{},{},bump", touch(r), touch(r))]));
                hists.push((Ctx { cap: cap_lo as u32 + 1, ..base.clone() }, vec![format!("{},{},bump", touch(r), touch(r)), format!("cycle,{},bump", touch(r))]));
            }
            _ => {}
        }
        for (ctx, scripts) in hists {
            let t0 = std::time::Instant::now();
            s.tally(&format!("{routine}:size-class-history c={c}"));
            let mut h = Hist { ctx, dir: tempfile::tempdir().expect("tempdir"), replay: vec![], last: None, cut: cut.clone(), thorough, dead: false };
            h.begin(s);
            for sc in &scripts {
                h.step(s, sc);
                if h.dead {
                    break;
                }
                // the size the save actually had, relative to the constant
                if let Some(so) = &h.last {
                    let n = so.trace.iter().filter_map(|o| match o { FsOp::Write { data, .. } => Some(data.len()), _ => None }).max().unwrap_or(0);
                    let side = if n < c { "below" } else if n == c { "at" } else { "above" };
                    s.tally(&format!("{routine}:size-class-save-{side}-constant"));
                }
            }
            if std::env::var_os("C06_TIMING").is_some() {
                eprintln!("timing {routine} c={c} {:?}", t0.elapsed());
            }
        }
    }
}

fn replay_file(s: &mut Session, lines: &[String], thorough: bool) {
    let mut h: Option<Hist> = None;
    for l in lines {
        let toks: Vec<&str> = l.split(' ').collect();
        match toks.first().copied() {
            Some("begin") => {
                let get = |k: &str| toks.iter().find_map(|t| t.strip_prefix(&format!("{k}="))).unwrap_or("").to_string();
                let uni = get("uni");
                let ctx = Ctx {
                    routine: toks.get(1).copied().unwrap_or("?").to_string(),
                    cap: get("cap").parse().unwrap_or(4),
                    name: get("name"),
                    sub: get("sub").parse().unwrap_or(0),
                    universe: if uni == "-" || uni.is_empty() { vec![] } else { uni.split('/').map(str::to_string).collect() },
                };
                let mut cut = CutPolicy::fine(64);
                if let Ok(c) = get("coarse").parse::<usize>() {
                    cut.coarse_above = c;
                    cut.marks = get("marks").split(',').filter_map(|m| m.parse().ok()).collect();
                }
                let mut nh = Hist { ctx, dir: tempfile::tempdir().expect("tempdir"), replay: vec![], last: None, cut, thorough, dead: false };
                nh.begin(s);
                h = Some(nh);
            }
            Some("step") => {
                if let Some(h) = h.as_mut() {
                    let body = l.strip_prefix("step ").unwrap_or("");
                    let script = body.split(" | ").next().unwrap_or("").trim().to_string();
                    h.step(s, &script);
                }
            }
            Some("resume") => {
                if let (Some(h), Some(a), Some(b), Some(v)) = (h.as_mut(), toks.get(1), toks.get(2), toks.get(3)) {
                    h.resume(s, a.parse().unwrap_or(0), b.parse().unwrap_or(0), v);
                }
            }
            Some("state") | Some("pre") => {}
            _ => s.line(l, "bad-op"),
        }
    }
}

fn main() {
    let raw: Vec<String> = std::env::args().collect();
    if raw.get(1).map(String::as_str) == Some("--worker") {
        worker(&raw[2..]);
        return;
    }
    if raw.get(1).map(String::as_str) == Some("--parse-trace") && raw.len() >= 5 {
        // debugging aid: c06 --parse-trace strace|shim FILE BASE
        let evs = if raw[2] == "strace" { read_strace(Path::new(&raw[3])) } else { read_shim_log(Path::new(&raw[3])) };
        match evs.and_then(|e| fold_events(&e, &raw[4])) {
            Ok(o) => println!("pre={} ops={} failed_writes={}", trace_text(&o.pre), trace_text(&o.ops), o.failed_writes),
            Err(e) => println!("{e:?}"),
        }
        return;
    }
    if raw.get(1).map(String::as_str) == Some("--size-constants") {
        // debugging aid: the size constants the size-class histories are built from
        for routine in ["idx", "res", "lru", "dc"] {
            for thorough in [false, true] {
                let (v, n) = size_constants(routine, thorough);
                println!("{routine} {}: {v:?} ({n} from the source)", if thorough { "thorough" } else { "quick" });
            }
        }
        return;
    }
    quiet_panics();
    let args = Args::parse();
    let tracer = init_tracer();
    let mut s = Session::new(&args.out);
    s.extra.insert("tracer".into(), serde_json::json!(tracer.desc));
    s.rule = "one case = one crash state (cut position × un-synced-content variant, distinct directory images only) of one traced save, evaluated with the real loader; non-trivial = every such state (the loader ran on a directory that differs from the previous one); distinct = routine + script + old directory + cut + variant. Histories: random short ones per routine (writes cut every 64/256 bytes) + the size-class family: for every size constant c of the save routines' source (literal products/shifts and named constants, read from /repo at run time) and of the environment (page, BufWriter, 64 KiB, 1 MiB, tokio file buffer) objects of c-1, c, c+1 bytes (disk cache) or entry counts that put the file just below/above c (index bucket, residency db, LRU table), writes cut at boundaries only".into();
    if let Some(p) = &args.replay {
        let lines = read_case(p);
        replay_file(&mut s, &lines, args.thorough());
        finish(s);
        return;
    }
    let mut r = Rng::new(args.seed);
    let per = if args.thorough() { 16 } else { 4 };
    for routine in ["idx", "res", "lru", "dc", "jrn"] {
        for v in 0..per {
            gen_history(&mut s, &mut r, routine, args.thorough(), v);
        }
    }
    for routine in ["idx", "res", "lru", "dc"] {
        gen_size_classes(&mut s, &mut r, routine, args.thorough());
    }
    finish(s);
}

fn finish(mut s: Session) {
    s.extra.insert("tracer_crosscheck_runs".into(), serde_json::json!(XCHECK_RUNS.load(std::sync::atomic::Ordering::Relaxed)));
    s.extra.insert("tracer_crosscheck_skipped_huge_values".into(), serde_json::json!(XCHECK_SKIPPED.load(std::sync::atomic::Ordering::Relaxed)));
    let diffs = XCHECK_DIFFS.lock().map(|v| v.clone()).unwrap_or_default();
    s.extra.insert("tracer_crosscheck_differences".into(), serde_json::json!(diffs.len()));
    if !diffs.is_empty() {
        s.extra.insert("tracer_crosscheck_samples".into(), serde_json::json!(diffs.iter().take(5).collect::<Vec<_>>()));
    }
    drop_tracer_files();
    s.finish();
}
