//! Generators shared between binaries.
use crate::Rng;

/// payload classes named in several property quantifiers
pub fn payload(rng: &mut Rng, max: usize) -> Vec<u8> {
    let n = match rng.below(10) {
        0 => 0,
        1 => 1,
        2 => rng.range(2, 16) as usize,
        _ => rng.range(0, max as u64) as usize,
    };
    match rng.below(5) {
        0 => vec![rng.byte(); n],                                   // constant (compressible)
        1 => (0..n).map(|i| (i % 7) as u8).collect(),               // periodic
        _ => rng.bytes(n),                                          // incompressible
    }
}
