#!/usr/bin/env python3
"""keep_seed.py <seeddir> <id> <property> "<needs>" "<caught-by>" "<check verdict line>" — store a confirmed seeded change."""
import json, os, shutil, sys, subprocess
sd, sid, pid, needs, caught, verdict = sys.argv[1:7]
dst = f"/verif/seeded/{sid}"
os.makedirs(dst, exist_ok=True)
for f in os.listdir(sd):
    shutil.copy(os.path.join(sd, f), os.path.join(dst, f))
head = subprocess.check_output(["git", "-C", "/repo", "rev-parse", "--short", "HEAD"], text=True).strip()
meta = {
    "id": sid, "breaks_property": pid, "needs_to_manifest": needs,
    "made_by": "fresh sub-agent given only the property text and a scratch worktree (nothing from /verif)",
    "confirmed": {
        "how": "lib/confirm_seed.sh in a scratch worktree: patch applies to HEAD, existing tests of the touched crates pass with it, demo fails with it and passes without it",
        "repo_head_when_confirmed": head,
    },
    "check_result": {"command": f"lib/try_seed.sh {pid} seeded/{sid}/patch.diff quick", "verdict": verdict, "caught_by": caught},
}
if os.environ.get("ROUND"):
    meta["round"] = os.environ["ROUND"]
json.dump(meta, open(os.path.join(dst, "meta.json"), "w"), indent=1)
print("kept", dst)
