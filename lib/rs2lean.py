#!/usr/bin/env python3
"""
rs2lean — a small translator from the straight-line integer Rust of the cipher/hash primitives
(crates/cascette-crypto/src/{salsa20,jenkins}.rs) to Lean 4 definitions.

It is run by `./check C09` on every run (before `lake build`), reads /repo's CURRENT source and
rewrites lean/Cascette/Generated/CryptoSrc.lean. Proofs/CryptoTie.lean then proves that every
generated definition equals the hand-written model definition the C09 theorems are about. A change
to the Rust text of these functions therefore changes the generated Lean and either still
satisfies the tie theorems (harmless rewrite) or breaks a proof obligation (reported by ./check).

Supported Rust subset (anything else in a translated fragment is a translation error, reported):
  statements   x = e;  *x = e;  x ^= e;  a[i] = e;  a[i] ^= e;  f(&mut a, …);  Self::f(&mut s, n, …);
               if e == e { … }      for _ in 0..N { … }      match k.len() { N => { … } … }
  expressions  literals (hex/dec, `_`, type suffix), variables, *x, self.f, a[i],
               .wrapping_add(e) .wrapping_sub(e) .rotate_left(n), u32::from(e),
               u32::from_le_bytes([e,e,e,e]), e << n, e ^ e, e == e, (e), e as u32
ARC4 / control-flow extension (arc4.rs KSA + PRGA, the per-byte loop bodies of both
`apply_keystream`s, hashlittle's empty-input return and length conversion):
  statements   let x = e;  x += e;  s.swap(i, j);  self.f();  (a `&mut self` helper, configured)
  expressions  e || e, e > e, e >= e, e < e, e <= e, e + e, e - e, e % e, e * e, e as usize (u8 -> Nat),
               e as u8 (Nat -> u8), a[i] on arrays (`getD`), x.len(), x.is_empty(), self.f() (effectful
               helper returning a value), u32::try_from(x.len()).unwrap_or(u32::MAX)
"""
import os, re, sys

REPO = os.environ.get("VERIF_REPO", "/repo")
OUT = os.path.join(os.path.dirname(os.path.dirname(os.path.abspath(__file__))),
                   "lean/Cascette/Generated/CryptoSrc.lean")


class TranslationError(Exception):
    pass


# ---------------------------------------------------------------- lexing
TOKEN = re.compile(r"""
    (?P<ws>\s+|//[^\n]*|/\*.*?\*/)
  | (?P<num>0x[0-9a-fA-F_]+(?:_?[ui](?:8|16|32|64|size))?|[0-9][0-9_]*(?:_?[ui](?:8|16|32|64|size))?)
  | (?P<id>[A-Za-z_][A-Za-z0-9_]*)
  | (?P<op>::|\.\.=|\.\.|<<=|>>=|<<|>>|==|!=|<=|>=|=>|\^=|\+=|-=|\|=|&=|&&|\|\||[-+*/%^&|!<>=.,;:()\[\]{}#'"?])
""", re.X | re.S)


def lex(src):
    toks, i = [], 0
    while i < len(src):
        m = TOKEN.match(src, i)
        if not m:
            raise TranslationError(f"cannot lex at: {src[i:i+40]!r}")
        i = m.end()
        if m.lastgroup == "ws":
            continue
        toks.append((m.lastgroup, m.group(m.lastgroup)))
    return toks


def fn_body(src, name):
    """text between the braces of `fn <name>`."""
    m = re.search(r"\bfn\s+" + re.escape(name) + r"\b", src)
    if not m:
        raise TranslationError(f"function {name} not found")
    i = src.index("{", m.end())
    depth, j = 0, i
    while j < len(src):
        if src[j] == "{":
            depth += 1
        elif src[j] == "}":
            depth -= 1
            if depth == 0:
                return src[i + 1:j]
        j += 1
    raise TranslationError(f"unbalanced braces in {name}")


# ---------------------------------------------------------------- parsing
class P:
    def __init__(self, toks):
        self.t, self.i = toks, 0

    def peek(self, k=0):
        return self.t[self.i + k] if self.i + k < len(self.t) else ("eof", "")

    def eat(self, val=None):
        tok = self.peek()
        if val is not None and tok[1] != val:
            raise TranslationError(f"expected {val!r}, found {tok[1]!r} (token {self.i})")
        self.i += 1
        return tok

    def at(self, val):
        return self.peek()[1] == val

    # expr := or ; or := cmp (|| cmp)* ; cmp := xor ((==|>|>=|<|<=) xor)*
    def expr(self):
        l = self.cmp()
        while self.at("||"):
            self.eat()
            l = ("bin", "||", l, self.cmp())
        return l

    def cmp(self):
        l = self.xor()
        while self.peek()[1] in ("==", ">", ">=", "<", "<="):
            op = self.eat()[1]
            l = ("bin", op, l, self.xor())
        return l

    def xor(self):
        l = self.shift()
        while self.at("^"):
            self.eat()
            l = ("bin", "^", l, self.shift())
        return l

    def shift(self):
        l = self.additive()
        while self.at("<<"):
            self.eat()
            l = ("bin", "<<", l, self.additive())
        return l

    def additive(self):
        l = self.multiplicative()
        while self.peek()[1] in ("+", "-"):
            op = self.eat()[1]
            l = ("bin", op, l, self.multiplicative())
        return l

    def multiplicative(self):
        l = self.cast()
        while self.peek()[1] in ("%", "*") and self.peek(1)[1] != "=":
            op = self.eat()[1]
            l = ("bin", op, l, self.cast())
        return l

    def cast(self):
        e = self.postfix()
        while self.at("as"):
            self.eat()
            ty = self.eat()[1]
            e = ("as", ty, e)
        return e

    def postfix(self):
        e = self.primary()
        while True:
            if self.at("."):
                self.eat()
                name = self.eat()[1]
                if self.at("("):
                    e = ("method", name, e, self.args())
                else:
                    e = ("field", name, e)
            elif self.at("["):
                self.eat()
                idx = self.expr()
                self.eat("]")
                e = ("index", e, idx)
            else:
                return e

    def args(self):
        self.eat("(")
        a = []
        while not self.at(")"):
            a.append(self.expr())
            if self.at(","):
                self.eat()
        self.eat(")")
        return a

    def primary(self):
        k, v = self.peek()
        if k == "num":
            self.eat()
            v = re.sub(r"_?[ui](8|16|32|64|size)$", "", v).replace("_", "")
            return ("num", int(v, 16) if v.startswith("0x") else int(v))
        if v == "*":
            self.eat()
            return ("deref", self.postfix())
        if v == "&":
            self.eat()
            if self.at("mut"):
                self.eat()
            return ("ref", self.postfix())
        if v == "(":
            self.eat()
            e = self.expr()
            self.eat(")")
            return e
        if v == "[":
            self.eat()
            items = []
            while not self.at("]"):
                items.append(self.expr())
                if self.at(","):
                    self.eat()
            self.eat("]")
            return ("array", items)
        if k == "id":
            self.eat()
            path = [v]
            while self.at("::"):
                self.eat()
                path.append(self.eat()[1])
            if self.at("(") and (len(path) > 1 or path[0] not in ("if", "match", "for", "while")):
                return ("call", "::".join(path), self.args())
            return ("var", "::".join(path))
        raise TranslationError(f"unexpected token {v!r} in expression")

    # statements
    def block(self):
        self.eat("{")
        s = self.stmts()
        self.eat("}")
        return s

    def skip_braces(self):
        self.eat("{")
        depth = 1
        while depth:
            t = self.eat()
            if t[0] == "eof":
                raise TranslationError("unbalanced braces")
            if t[1] == "{":
                depth += 1
            elif t[1] == "}":
                depth -= 1

    def stmts(self):
        out = []
        while not self.at("}") and self.peek()[0] != "eof":
            out.append(self.stmt())
        return out

    def stmt(self):
        k, v = self.peek()
        if v == "if":
            self.eat()
            c = self.expr()
            body = self.block()
            if self.at("else"):
                raise TranslationError("else branches are not in the supported subset")
            return ("if", c, body)
        if v == "for":
            self.eat()
            pat = []
            while not self.at("in"):
                pat.append(self.eat()[1])
            self.eat("in")
            lo = self.cast()
            if not self.at(".."):
                # `for pat in <iterator> { … }`: not in the subset; skipped as an opaque statement
                # (the callers that need such a loop recognise it as a whole-text idiom)
                self.skip_braces()
                return ("opaque-for", "".join(pat))
            self.eat("..")
            hi = self.cast()
            body = self.block()
            return ("for", "".join(pat), lo, hi, body)
        if v == "match":
            self.eat()
            scrut = self.expr()
            self.eat("{")
            arms = []
            while not self.at("}"):
                if self.peek()[0] == "num":
                    n = self.primary()[1]
                    self.eat("=>")
                    arms.append((n, self.block()))
                elif self.at("_"):
                    self.eat()
                    self.eat("=>")
                    # wildcard arm: skip to the arm's end
                    depth = 0
                    while True:
                        t = self.eat()[1]
                        if t in "({[":
                            depth += 1
                        elif t in ")}]":
                            depth -= 1
                        if depth == 0 and (self.at(",") or self.at("}")):
                            break
                    arms.append(("_", None))
                else:
                    raise TranslationError(f"unsupported match arm starting with {self.peek()[1]!r}")
                if self.at(","):
                    self.eat()
            self.eat("}")
            return ("match", scrut, arms)
        if v == "return":
            self.eat()
            e = None if self.at(";") else self.expr()
            self.eat(";")
            return ("return", e)
        if v == "let":
            self.eat()
            if self.at("mut"):
                self.eat()
            name = self.eat()[1]
            if self.at(":"):
                while not self.at("="):
                    self.eat()
            self.eat("=")
            e = self.expr()
            self.eat(";")
            return ("let", name, e)
        # expression / assignment statement
        lhs = self.expr()
        if self.peek()[1] in ("=", "^=", "+=", "-="):
            op = self.eat()[1]
            rhs = self.expr()
            self.eat(";")
            return ("assign", op, lhs, rhs)
        if self.at("}") or self.peek()[0] == "eof":
            return ("tailexpr", lhs)
        self.eat(";")
        return ("expr", lhs)


def parse_block_text(text):
    p = P(lex(text))
    s = p.stmts()
    if p.peek()[0] != "eof":
        raise TranslationError(f"trailing tokens after block: {p.peek()}")
    return s


# ---------------------------------------------------------------- emission
class Emit:
    """env: index_mode[name] in {'getset','fn','pat'}; rename maps Rust names to Lean names."""

    def __init__(self, index_mode, rename=None, calls=None, selfcalls=None, lens=None):
        self.im, self.rn, self.calls = index_mode, rename or {}, calls or {}
        # selfcalls[name] = (lean function, [state variables it updates], returns a value?)
        self.selfcalls = selfcalls or {}
        # lens[name] = Lean expression for `name.len()`
        self.lens = lens or {}
        self.pre, self.tmp = [], 0

    def name(self, e):
        if e[0] == "var":
            return self.rn.get(e[1], e[1])
        if e[0] in ("deref", "ref"):
            return self.name(e[1])
        if e[0] == "field" and e[2] == ("var", "self"):
            return self.rn.get("self." + e[1], e[1])
        if e[0] == "field" and e[2][0] == "var" and (e[2][1] + "." + e[1]) in self.rn:
            return self.rn[e[2][1] + "." + e[1]]
        raise TranslationError(f"not a place expression: {e}")

    def ex(self, e):
        k = e[0]
        if k == "num":
            return hex(e[1]) if e[1] > 9 else str(e[1])
        if k in ("var", "deref", "ref", "field"):
            return self.name(e)
        if k == "as":
            if e[1] == "usize":      # u8 -> usize
                return f"({self.ex(e[2])}).toNat"
            if e[1] == "u8":         # usize -> u8 (truncating)
                return f"(BitVec.ofNat 8 {self.ex(e[2])})"
            if e[1] != "u32":
                raise TranslationError(f"cast to {e[1]} unsupported")
            return self.ex(e[2])
        if k == "index":
            base = self.name(e[1])
            mode = self.im.get(base)
            if mode == "getset":
                return f"(get {base} {self.ex(e[2])})"
            if mode == "fn":
                return f"({base} {self.ex(e[2])})"
            if mode == "arr":
                return f"({base}.getD {self.ex(e[2])} 0)"
            if mode == "pat":
                if e[2][0] != "num":
                    raise TranslationError("pattern-indexed array needs literal index")
                return f"{base}{e[2][1]}"
            raise TranslationError(f"indexing of {base} not configured")
        if k == "method" and e[2] == ("var", "self") and e[1] in self.selfcalls:
            lean_f, state, returns = self.selfcalls[e[1]]
            if not returns:
                raise TranslationError(f"self.{e[1]}() has no value")
            t = f"r{self.tmp}"
            self.tmp += 1
            self.pre.append(f"let (({', '.join(state)}), {t}) := {lean_f} {' '.join(state)}")
            return t
        if k == "method" and e[1] in ("len", "is_empty") and e[2][0] == "var" and e[2][1] in self.lens:
            n = self.lens[e[2][1]]
            return n if e[1] == "len" else f"({n} = 0)"
        if k == "method":
            name, recv, args = e[1], self.ex(e[2]), e[3]
            if name == "wrapping_add":
                return f"({recv} + {self.ex(args[0])})"
            if name == "wrapping_sub":
                return f"({recv} - {self.ex(args[0])})"
            if name == "rotate_left":
                return f"({recv}).rotateLeft {self.ex(args[0])}"
            raise TranslationError(f"method .{name} unsupported")
        if k == "call":
            if e[1] == "u32::from":
                return f"({self.ex(e[2][0])}.setWidth 32)"
            if e[1] == "u32::from_le_bytes":
                arr = e[2][0]
                if arr[0] != "array" or len(arr[1]) != 4:
                    raise TranslationError("from_le_bytes needs a 4-element array literal")
                return "(le32 " + " ".join(self.ex(x) for x in arr[1]) + ")"
            raise TranslationError(f"call {e[1]} unsupported in expression")
        if k == "bin":
            op = {"<<": "<<<", "^": "^^^", "==": "=", "||": "∨", ">": ">", ">=": "≥", "<": "<", "<=": "≤",
                  "+": "+", "-": "-", "%": "%", "*": "*"}[e[1]]
            return f"({self.ex(e[2])} {op} {self.ex(e[3])})"
        raise TranslationError(f"expression {k} unsupported")

    def assigned(self, stmts):
        out = []
        for s in stmts:
            if s[0] == "assign":
                lhs = s[2]
                n = self.name(lhs[1]) if lhs[0] == "index" else self.name(lhs)
                if n not in out:
                    out.append(n)
            elif s[0] == "expr" and s[1][0] == "call":
                for a in s[1][2]:
                    if a[0] == "ref":
                        n = self.name(a)
                        if n not in out:
                            out.append(n)
            elif s[0] == "expr" and s[1][0] == "method" and s[1][2] == ("var", "self") and s[1][1] in self.selfcalls:
                for n in self.selfcalls[s[1][1]][1]:
                    if n not in out:
                        out.append(n)
            elif s[0] == "expr" and s[1][0] == "method" and s[1][1] == "swap":
                n = self.name(s[1][2])
                if n not in out:
                    out.append(n)
            elif s[0] in ("if",):
                for n in self.assigned(s[2]):
                    if n not in out:
                        out.append(n)
        return out

    def stmts(self, stmts, ind):
        lines = []
        pad = " " * ind
        for s in stmts:
            k = s[0]
            if k == "assign":
                op, lhs, rhs = s[1], s[2], self.ex(s[3])
                lines += [pad + l for l in self.pre]
                self.pre = []
                if lhs[0] == "index" and self.im.get(self.name(lhs[1])) == "arr":
                    base = self.name(lhs[1])
                    if op != "=":
                        raise TranslationError(f"operator {op} on array element unsupported")
                    lines.append(f"{pad}let {base} := {base}.setIfInBounds {self.ex(lhs[2])} {rhs}")
                elif lhs[0] == "index":
                    base = self.name(lhs[1])
                    if self.im.get(base) != "getset":
                        raise TranslationError(f"assignment into {base}[..] not configured")
                    idx = self.ex(lhs[2])
                    if op == "=":
                        lines.append(f"{pad}let {base} := set {base} {idx} {rhs}")
                    elif op == "^=":
                        lines.append(f"{pad}let {base} := set {base} {idx} ((get {base} {idx}) ^^^ {rhs})")
                    else:
                        raise TranslationError(f"operator {op} on indexed place unsupported")
                else:
                    n = self.name(lhs)
                    if op == "=":
                        lines.append(f"{pad}let {n} := {rhs}")
                    elif op == "^=":
                        lines.append(f"{pad}let {n} := ({n} ^^^ {rhs})")
                    elif op == "+=":
                        lines.append(f"{pad}let {n} := ({n} + {rhs})")
                    else:
                        raise TranslationError(f"operator {op} unsupported")
            elif k == "let":
                rhs = self.ex(s[2])
                lines += [pad + l for l in self.pre]
                self.pre = []
                lines.append(f"{pad}let {s[1]} := {rhs}")
            elif k == "expr" and s[1][0] == "method" and s[1][1] == "swap" and len(s[1][3]) == 2:
                base = self.name(s[1][2])
                if self.im.get(base) != "arr":
                    raise TranslationError(f".swap on {base} not configured")
                a, b = self.ex(s[1][3][0]), self.ex(s[1][3][1])
                lines += [pad + l for l in self.pre]
                self.pre = []
                lines.append(f"{pad}let {base} := slice_swap {base} {a} {b}")
            elif k == "expr" and s[1][0] == "method" and s[1][2] == ("var", "self") and s[1][1] in self.selfcalls:
                lean_f, state, returns = self.selfcalls[s[1][1]]
                if returns or s[1][3]:
                    raise TranslationError(f"self.{s[1][1]}(…) as a statement: unsupported shape")
                tup = state[0] if len(state) == 1 else "(" + ", ".join(state) + ")"
                lines.append(f"{pad}let {tup} := {lean_f} {' '.join(state)}")
            elif k == "expr" and s[1][0] == "call":
                fname, args = s[1][1], s[1][2]
                lean_f = self.calls.get(fname)
                if lean_f is None:
                    raise TranslationError(f"call to {fname} not configured")
                outs = [self.name(a) for a in args if a[0] == "ref"]
                lean_args = " ".join(self.ex(a) for a in args)
                lhs = outs[0] if len(outs) == 1 else "(" + ", ".join(outs) + ")"
                lines.append(f"{pad}let {lhs} := {lean_f} {lean_args}")
            elif k == "if":
                vs = self.assigned(s[2])
                tup = vs[0] if len(vs) == 1 else "(" + ", ".join(vs) + ")"
                lines.append(f"{pad}let {tup} := if {self.ex(s[1])} then (")
                lines += self.stmts(s[2], ind + 4)
                lines.append(f"{pad}    {tup}) else {tup}")
            else:
                raise TranslationError(f"statement {k} unsupported here")
        return lines


def find(stmts, pred):
    return [s for s in stmts if pred(s)]


# ---------------------------------------------------------------- the fragments
def translate():
    out = []
    w = out.append
    w("/-")
    w("GENERATED by lib/rs2lean.py from /repo/crates/cascette-crypto/src/{salsa20,jenkins}.rs — do not edit.")
    w("Regenerated on every `./check C09`; Proofs/CryptoTie.lean proves these equal the model.")
    w("-/")
    w("import Cascette.Model.Salsa20")
    w("import Cascette.Model.Jenkins")
    w("import Cascette.Model.Arc4")
    w("namespace Cascette.Generated")
    w("open Cascette")
    w("open Cascette.Spec.Salsa20 (S)")
    w("open Cascette.Model.Salsa20 (get set)")
    w("")
    salsa = open(os.path.join(REPO, "crates/cascette-crypto/src/salsa20.rs")).read()
    jenk = open(os.path.join(REPO, "crates/cascette-crypto/src/jenkins.rs")).read()

    # --- Salsa20Cipher::quarter_round
    qr = parse_block_text(fn_body(salsa, "quarter_round"))
    em = Emit({"state": "getset"})
    w("/-- `Salsa20Cipher::quarter_round` -/")
    w("def quarter_round (state : S) (a b c d : Nat) : S :=")
    out.extend(em.stmts(qr, 2))
    w("  state")
    w("")

    # --- generate_keystream: the round loop and the counter update
    gk = parse_block_text(fn_body(salsa, "generate_keystream"))
    loops = find(gk, lambda s: s[0] == "for" and s[1] == "_")
    if len(loops) != 1:
        raise TranslationError("generate_keystream: expected exactly one `for _ in 0..N` round loop")
    _, _, lo, hi, body = loops[0]
    if lo != ("num", 0) or hi[0] != "num":
        raise TranslationError("generate_keystream: round loop bounds must be literals 0..N")
    em = Emit({"working_state": "getset"}, calls={"Self::quarter_round": "quarter_round"})
    w("/-- body of the round loop of `generate_keystream` -/")
    w("def round_body (working_state : S) : S :=")
    out.extend(em.stmts(body, 2))
    w("  working_state")
    w("")
    w(f"def round_count : Nat := {hi[1]}")
    w("")
    # first statement must copy the state; the two enumerate loops are recognised idioms
    if gk[0] != ("let", "working_state", ("field", "state", ("var", "self"))):
        raise TranslationError("generate_keystream: expected `let mut working_state = self.state;` first")
    norm = re.sub(r"\s+", "", re.sub(r"//[^\n]*", "", fn_body(salsa, "generate_keystream")))
    idiom_add = "for(i,working)inworking_state.iter_mut().enumerate(){*working=working.wrapping_add(self.state[i]);}"
    idiom_ser = "for(i,chunk)inworking_state.iter().enumerate(){letbytes=chunk.to_le_bytes();self.keystream[i*4..(i+1)*4].copy_from_slice(&bytes);}"
    w(f"/-- feed-forward idiom `*working = working.wrapping_add(self.state[i])` present in the source -/")
    w(f"def feed_forward_is_wrapping_add : Bool := {'true' if idiom_add in norm else 'false'}")
    w(f"/-- serialisation idiom `keystream[i*4..(i+1)*4] = chunk.to_le_bytes()` present in the source -/")
    w(f"def serialise_is_le_words : Bool := {'true' if idiom_ser in norm else 'false'}")
    order_ok = (idiom_add in norm and idiom_ser in norm and norm.index(idiom_add) < norm.index(idiom_ser)
                and norm.index("for_in0..") < norm.index(idiom_add))
    w(f"def generate_order_ok : Bool := {'true' if order_ok else 'false'}")
    w("")
    ctr = [s for s in gk if (s[0] == "assign" and s[2][0] == "index" and s[2][1] == ("field", "state", ("var", "self")))
           or (s[0] == "if")]
    em = Emit({"state": "getset"}, rename={"self.state": "state"})
    w("/-- the counter update at the end of `generate_keystream` -/")
    w("def counter_update (state : S) : S :=")
    out.extend(em.stmts(ctr, 2))
    w("  state")
    w("")
    pos = find(gk, lambda s: s[0] == "assign" and s[2] == ("field", "keystream_pos", ("var", "self")))
    if len(pos) != 1 or pos[0][3][0] != "num":
        raise TranslationError("generate_keystream: expected `self.keystream_pos = <literal>;`")
    w(f"def pos_after_generate : Nat := {pos[0][3][1]}")
    w("")

    # --- Salsa20Cipher::new: the assignments into `state[..]`
    nw = parse_new_state(fn_body(salsa, "new"))
    em = Emit({"state": "getset", "key": "fn", "extended_iv": "fn"})
    w("/-- the `state[i] = …` assignments of `Salsa20Cipher::new`, in source order, starting from")
    w("`[0u32; 16]`; `key i` / `extended_iv i` stand for the byte arrays. -/")
    w("def init_state (key extended_iv : Nat → Byte) : S :=")
    w("  let state : S := ⟨0, 0, 0, 0, 0, 0, 0, 0, 0, 0, 0, 0, 0, 0, 0, 0⟩")
    out.extend(em.stmts(nw, 2))
    w("  state")
    w("")

    # --- apply_keystream: refill threshold
    ak = fn_body(salsa, "apply_keystream")
    m = re.search(r"if\s+self\.keystream_pos\s*>=\s*(\d+)\s*\{\s*self\.generate_keystream\(\);\s*\}", ak)
    if not m:
        raise TranslationError("apply_keystream: refill test `if self.keystream_pos >= N { self.generate_keystream(); }` not found")
    w(f"def refill_threshold : Nat := {m.group(1)}")
    w("")

    # --- jenkins mix / final_mix
    em = Emit({})
    for fname in ("mix", "final_mix"):
        st = parse_block_text(fn_body(jenk, fname))
        w(f"/-- `{fname}` -/")
        w(f"def {fname} (a b c : W32) : W32 × W32 × W32 :=")
        out.extend(em.stmts(st, 2))
        w("  (a, b, c)")
        w("")

    # --- the block loop body and the tail match of both hash functions
    for fname, lean in (("hashlittle", "hashlittle"), ("hashlittle2_impl", "hashlittle2")):
        body = fn_body(jenk, fname)
        # while k.len() > 12 { … }
        m = re.search(r"while\s+k\.len\(\)\s*>\s*(\d+)\s*\{", body)
        if not m:
            raise TranslationError(f"{fname}: `while k.len() > N` loop not found")
        thr = int(m.group(1))
        i = m.end() - 1
        depth, j = 0, i
        while True:
            if body[j] == "{":
                depth += 1
            elif body[j] == "}":
                depth -= 1
                if depth == 0:
                    break
            j += 1
        loop_txt = body[i + 1:j]
        adv = re.search(r"k\s*=\s*&k\[(\d+)\.\.\];", loop_txt)
        if not adv:
            raise TranslationError(f"{fname}: block advance `k = &k[N..];` not found")
        loop_stmts = parse_block_text(loop_txt.replace(adv.group(0), ""))
        em = Emit({"k": "pat"}, calls={"mix": "mix"})
        w(f"/-- body of the `while k.len() > {thr}` loop of `{fname}` on the first {adv.group(1)} bytes -/")
        w(f"def {lean}_block (a b c : W32) (k0 k1 k2 k3 k4 k5 k6 k7 k8 k9 k10 k11 : Byte) : W32 × W32 × W32 :=")
        out.extend(em.stmts(loop_stmts, 2))
        w("  (a, b, c)")
        w(f"def {lean}_block_threshold : Nat := {thr}")
        w(f"def {lean}_block_advance : Nat := {adv.group(1)}")
        w("")
        rest = parse_block_text(body[j + 1:])
        ms = find(rest, lambda s: s[0] == "match")
        if len(ms) != 1:
            raise TranslationError(f"{fname}: expected one tail `match`")
        scrut, arms = ms[0][1], ms[0][2]
        if scrut != ("method", "len", ("var", "k"), []):
            raise TranslationError(f"{fname}: tail match must be on k.len()")
        w(f"/-- the tail `match k.len()` of `{fname}`; arms that return early / `unreachable!` are `none` -/")
        w(f"def {lean}_tail (a b c : W32) : Bytes → Option (W32 × W32 × W32)")
        for n, arm in sorted([a for a in arms if a[0] != "_"], key=lambda a: -a[0]):
            if n == 0:
                continue
            pat = "[" + ", ".join(f"k{q}" for q in range(n)) + "]"
            w(f"  | {pat} =>")
            out.extend(em.stmts(arm, 6))
            w("      some (a, b, c)")
        w("  | _ => none")
        w("")
        # prologue: initial value
        init = parse_block_text(body[:body.index("if k.is_empty()")])
        want = [s for s in init if s[0] == "let" and s[1] in ("a", "b", "c")]
        w(f"/-- the initial registers of `{fname}` (`len` = the already converted length word) -/")
        if fname == "hashlittle":
            w(f"def {lean}_init (len initval : W32) : W32 × W32 × W32 :=")
        else:
            w(f"def {lean}_init (len pc pb : W32) : W32 × W32 × W32 :=")
        for s in want:
            w(f"  let {s[1]} := {emit_init(s[2])}")
        w("  (a, b, c)")
        w("")
        # after the match: final_mix then the outputs
        after = rest[rest.index(ms[0]) + 1:]
        if not (after and after[0] == ("expr", ("call", "final_mix", [("ref", ("var", "a")), ("ref", ("var", "b")), ("ref", ("var", "c"))]))):
            raise TranslationError(f"{fname}: expected final_mix(&mut a, &mut b, &mut c) after the tail match")
        if fname == "hashlittle":
            ok = body.rstrip().endswith("c")
            w(f"def hashlittle_returns_c : Bool := {'true' if ok else 'false'}")
        else:
            ok = after[1:] == [("assign", "=", ("deref", ("var", "pc")), ("var", "c")), ("assign", "=", ("deref", ("var", "pb")), ("var", "b"))]
            w(f"def hashlittle2_outputs_pc_c_pb_b : Bool := {'true' if ok else 'false'}")
        w("")
    translate_ext(w, out, salsa, jenk)
    w("end Cascette.Generated")
    return "\n".join(out) + "\n"


def block_after(text, start):
    """(body text, index after the closing brace) of the `{…}` that opens at/after `start`."""
    i = text.index("{", start)
    depth, j = 0, i
    while j < len(text):
        if text[j] == "{":
            depth += 1
        elif text[j] == "}":
            depth -= 1
            if depth == 0:
                return text[i + 1:j], j + 1
        j += 1
    raise TranslationError("unbalanced braces")


def strip_comments(t):
    return re.sub(r"//[^\n]*", "", t)


def norm(t):
    return re.sub(r"\s+", "", strip_comments(t))


def in_order(text, pats):
    """every regex occurs exactly once and in the given order."""
    pos = -1
    for p in pats:
        ms = list(re.finditer(p, text))
        if len(ms) != 1 or ms[0].start() <= pos:
            return False
        pos = ms[0].start()
    return True


def translate_ext(w, out, salsa, jenk):
    """ARC4 (KSA, PRGA, apply_keystream), Salsa20 apply_keystream loop body, hashlittle control flow."""
    arc4 = open(os.path.join(REPO, "crates/cascette-crypto/src/arc4.rs")).read()
    arc4 = arc4.split("#[cfg(test)]")[0]
    w("/-! ## extension: ARC4, per-byte loops, hashlittle control flow -/")
    w("set_option linter.unusedVariables false")
    w("")
    w("/-- the translator's reading of `<[u8]>::swap(a, b)` on an array (reads then two writes). -/")
    w("def slice_swap (s : Array Byte) (a b : Nat) : Array Byte :=")
    w("  let x := s.getD a 0")
    w("  let y := s.getD b 0")
    w("  (s.setIfInBounds a y).setIfInBounds b x")
    w("")
    w("/-- the translator's reading of `u32::try_from(n: usize)`. -/")
    w("def u32_try_from (n : Nat) : Option W32 := if n < 2 ^ 32 then some (BitVec.ofNat 32 n) else none")
    w("")

    # --- Arc4Cipher::new
    nw = strip_comments(fn_body(arc4, "new"))
    m = re.search(r"if\s+(.*?)\s*\{\s*return\s+Err\(\s*Arc4Error::InvalidKeyLength\(", nw, re.S)
    if not m:
        raise TranslationError("Arc4Cipher::new: key-length guard `if … { return Err(Arc4Error::InvalidKeyLength(…` not found")
    p = P(lex(m.group(1)))
    cond = p.expr()
    if p.peek()[0] != "eof":
        raise TranslationError("Arc4Cipher::new: cannot parse the key-length guard")
    em = Emit({}, lens={"key": "len"})
    w("/-- the guard of `Arc4Cipher::new` (`len` = `key.len()`): true = `Err(InvalidKeyLength)` -/")
    w(f"def arc4_key_rejected (len : Nat) : Prop := {em.ex(cond)}")
    w("instance (len : Nat) : Decidable (arc4_key_rejected len) := by unfold arc4_key_rejected; exact inferInstance")
    w("")
    m = re.search(r"Self\s*\{\s*s:\s*\[(\d+);\s*(\d+)\],\s*i:\s*(\d+),\s*j:\s*(\d+),?\s*\}", nw)
    if not m:
        raise TranslationError("Arc4Cipher::new: `Self { s: [v; n], i: a, j: b }` not found")
    w("/-- `Self { s: [v; n], i: …, j: … }` -/")
    w(f"def arc4_s_fill : Byte := {m.group(1)}")
    w(f"def arc4_s_len : Nat := {m.group(2)}")
    w(f"def arc4_i0 : Byte := {m.group(3)}")
    w(f"def arc4_j0 : Byte := {m.group(4)}")
    w("")
    loops = [(mm, ) + block_after(nw, mm.end() - 1) for mm in re.finditer(r"for\s+(\w+)\s+in\s+(\d+)\.\.(\d+)\s*\{", nw)]
    if len(loops) != 2:
        raise TranslationError(f"Arc4Cipher::new: expected two `for i in a..b` loops, found {len(loops)}")
    (m1, body1, _), (m2, body2, _) = loops
    if m1.group(1) != "i" or m2.group(1) != "i":
        raise TranslationError("Arc4Cipher::new: loop variable must be `i`")
    em = Emit({"s": "arr", "key": "arr"}, rename={"cipher.s": "s"}, lens={"key": "key.size"})
    w("/-- body of the S-box initialisation loop of `Arc4Cipher::new` -/")
    w("def arc4_init_body (s : Array Byte) (i : Nat) : Array Byte :=")
    out.extend(em.stmts(parse_block_text(body1), 2))
    w("  s")
    w(f"def arc4_init_lo : Nat := {m1.group(2)}")
    w(f"def arc4_init_hi : Nat := {m1.group(3)}")
    w("")
    mj = re.search(r"let\s+mut\s+j\s*=\s*(\d+)(?:_?u8)?\s*;", nw)
    if not mj:
        raise TranslationError("Arc4Cipher::new: `let mut j = <literal>u8;` not found")
    w("/-- body of the key-scheduling loop of `Arc4Cipher::new` -/")
    w("def arc4_ksa_body (key : Array Byte) (s : Array Byte) (i : Nat) (j : Byte) : Array Byte × Byte :=")
    out.extend(em.stmts(parse_block_text(body2), 2))
    w("  (s, j)")
    w(f"def arc4_ksa_lo : Nat := {m2.group(2)}")
    w(f"def arc4_ksa_hi : Nat := {m2.group(3)}")
    w(f"def arc4_ksa_j0 : Byte := {mj.group(1)}")
    flow = in_order(nw, [r"return\s+Err\(", r"let\s+mut\s+cipher\s*=\s*Self\s*\{", r"for\s+i\s+in[^{]*\{\s*cipher\.s\[i\]\s*=",
                         r"let\s+mut\s+j\s*=", r"for\s+i\s+in[^{]*\{\s*j\s*=", r"Ok\(cipher\)\s*$"])
    w("/-- guard, `Self{…}`, init loop, `let mut j`, KSA loop, `Ok(cipher)` occur once each, in this order -/")
    w(f"def arc4_new_flow_ok : Bool := {'true' if flow else 'false'}")
    w("")

    # --- next_keystream_byte
    nk = parse_block_text(fn_body(arc4, "next_keystream_byte"))
    if not nk or nk[-1][0] != "tailexpr":
        raise TranslationError("next_keystream_byte: expected a final expression")
    em = Emit({"s": "arr"})
    w("/-- `Arc4Cipher::next_keystream_byte` on the fields `(s, i, j)`: new fields and the returned byte -/")
    w("def arc4_next (s : Array Byte) (i j : Byte) : (Array Byte × Byte × Byte) × Byte :=")
    out.extend(em.stmts(nk[:-1], 2))
    w(f"  ((s, i, j), {em.ex(nk[-1][1])})")
    w("")

    # --- Arc4Cipher::apply_keystream: per-byte loop body
    ak = strip_comments(fn_body(arc4, "apply_keystream"))
    m = re.search(r"^\s*for\s+byte\s+in\s+data\s*\{", ak)
    if not m:
        raise TranslationError("Arc4Cipher::apply_keystream: expected `for byte in data { … }`")
    body, end = block_after(ak, m.end() - 1)
    if ak[end:].strip():
        raise TranslationError("Arc4Cipher::apply_keystream: statements after the loop")
    em = Emit({}, selfcalls={"next_keystream_byte": ("arc4_next", ["s", "i", "j"], True)})
    w("/-- body of `for byte in data` in `Arc4Cipher::apply_keystream` -/")
    w("def arc4_apply_body (s : Array Byte) (i j : Byte) (byte : Byte) : (Array Byte × Byte × Byte) × Byte :=")
    out.extend(em.stmts(parse_block_text(body), 2))
    w("  ((s, i, j), byte)")
    enc = norm(fn_body(arc4, "encrypt")) == "data.iter().map(|&byte|byte^self.next_keystream_byte()).collect()"
    dec = norm(fn_body(arc4, "decrypt")) == "self.encrypt(data)"
    w("/-- `encrypt` is `data.iter().map(|&byte| byte ^ self.next_keystream_byte()).collect()` -/")
    w(f"def arc4_encrypt_is_xor_map : Bool := {'true' if enc else 'false'}")
    w(f"def arc4_decrypt_is_encrypt : Bool := {'true' if dec else 'false'}")
    w("")

    # --- Salsa20Cipher::apply_keystream: per-byte loop body
    ak = strip_comments(fn_body(salsa, "apply_keystream"))
    m = re.search(r"^\s*for\s+byte\s+in\s+data\.iter_mut\(\)\s*\{", ak)
    if not m:
        raise TranslationError("Salsa20Cipher::apply_keystream: expected `for byte in data.iter_mut() { … }`")
    body, end = block_after(ak, m.end() - 1)
    if ak[end:].strip():
        raise TranslationError("Salsa20Cipher::apply_keystream: statements after the loop")
    st = ["state", "keystream", "keystream_pos"]
    em = Emit({"keystream": "arr"}, selfcalls={"generate_keystream": ("gen", st, False)})
    w("/-- body of `for byte in data.iter_mut()` in `Salsa20Cipher::apply_keystream`;")
    w("`gen` stands for `self.generate_keystream()` on the fields (tied separately by `generate_tie`) -/")
    w("def salsa_apply_body (gen : S → Bytes → Nat → S × Bytes × Nat) (state : S) (keystream : Bytes)")
    w("    (keystream_pos : Nat) (byte : Byte) : (S × Bytes × Nat) × Byte :=")
    out.extend(em.stmts(parse_block_text(body), 2))
    w("  ((state, keystream, keystream_pos), byte)")
    w("")

    # --- hashlittle / hashlittle2_impl: length conversion, empty-input return, statement order
    for fname, lean in (("hashlittle", "hashlittle"), ("hashlittle2_impl", "hashlittle2")):
        body = strip_comments(fn_body(jenk, fname))
        init = parse_block_text(body[:body.index("if k.is_empty()")])
        a0 = [s_ for s_ in init if s_[0] == "let" and s_[1] == "a"]
        if len(a0) != 1:
            raise TranslationError(f"{fname}: expected one `let mut a = …`")
        w(f"/-- the length word of `{fname}` as a function of `n = <input>.len()` -/")
        w(f"def {lean}_len (n : Nat) : W32 := {emit_len(find_len(a0[0][2]))}")
        m = re.search(r"if\s+k\.is_empty\(\)\s*\{", body)
        blk, _ = block_after(body, m.end() - 1)
        st = parse_block_text(blk)
        if not st or st[-1][0] != "return":
            raise TranslationError(f"{fname}: the `if k.is_empty()` block must end in `return`")
        em = Emit({})
        if fname == "hashlittle":
            if len(st) != 1 or st[0][1] is None:
                raise TranslationError("hashlittle: expected `if k.is_empty() { return <expr>; }`")
            w("/-- what `hashlittle` returns for empty input, from the initial registers -/")
            w(f"def hashlittle_empty_return (a b c : W32) : W32 := {em.ex(st[0][1])}")
            order = [r"let\s+mut\s+a\s*=", r"let\s+mut\s+b\s*=", r"let\s+mut\s+c\s*=", r"let\s+mut\s+k\s*=\s*data\s*;",
                     r"if\s+k\.is_empty\(\)", r"while\s+k\.len\(\)\s*>", r"match\s+k\.len\(\)", r"final_mix\(&mut a, &mut b, &mut c\);", r"\bc\s*$"]
        else:
            if st[-1][1] is not None:
                raise TranslationError("hashlittle2_impl: expected a bare `return;`")
            w("/-- what `hashlittle2_impl` stores in `(*pc, *pb)` for empty input, from the initial registers -/")
            w("def hashlittle2_empty_return (a b c pc pb : W32) : W32 × W32 :=")
            out.extend(em.stmts(st[:-1], 2))
            w("  (pc, pb)")
            order = [r"let\s+mut\s+a\s*=", r"let\s+mut\s+b\s*=", r"let\s+mut\s+c\s*=", r"let\s+mut\s+k\s*=\s*key\s*;",
                     r"if\s+k\.is_empty\(\)", r"while\s+k\.len\(\)\s*>", r"match\s+k\.len\(\)", r"final_mix\(&mut a, &mut b, &mut c\);", r"\*pc\s*=\s*c;\s*\*pb\s*=\s*b;\s*$"]
        w("/-- initial registers, `k = <input>`, empty-input return, block loop, tail match, final_mix, result: once each, in this order -/")
        w(f"def {lean}_flow_ok : Bool := {'true' if in_order(body.strip(), order) else 'false'}")
        w("")


def find_len(e):
    """the sub-expression that converts `<x>.len()` to u32 inside an initial-value expression."""
    if e[0] == "method" and e[1] == "unwrap_or":
        return e
    if e[0] == "as" and e[2][0] == "method" and e[2][1] == "len":
        return e
    if e[0] == "method":
        for sub in [e[2]] + list(e[3]):
            r = find_len(sub)
            if r is not None:
                return r
    return None


def emit_len(e):
    if e is None:
        raise TranslationError("no length conversion found in the initial value")
    if e[0] == "as" and e[1] == "u32":
        return "BitVec.ofNat 32 n"
    if e[0] == "method" and e[1] == "unwrap_or":
        inner, dflt = e[2], e[3][0]
        if inner[0] == "call" and inner[1] == "u32::try_from" and inner[2][0][0] == "method" and inner[2][0][1] == "len":
            if dflt == ("var", "u32::MAX"):
                d = "0xffffffff"
            elif dflt[0] == "num":
                d = hex(dflt[1])
            else:
                raise TranslationError("unwrap_or default unsupported")
            return f"(u32_try_from n).getD {d}"
    raise TranslationError("length conversion unsupported")


def emit_init(e):
    """initial-value expressions: 0xdead_beef_u32.wrapping_add(u32::try_from(x.len()).unwrap_or(u32::MAX)).wrapping_add(v)"""
    if e[0] == "method" and e[1] in ("wrapping_add",):
        return f"({emit_init(e[2])} + {emit_init(e[3][0])})"
    if e[0] == "method" and e[1] == "unwrap_or":
        inner = e[2]
        if (inner[0] == "call" and inner[1] == "u32::try_from" and inner[2][0][0] == "method" and inner[2][0][1] == "len"
                and e[3][0] == ("var", "u32::MAX")):
            return "len"
        raise TranslationError("length conversion is not u32::try_from(x.len()).unwrap_or(u32::MAX)")
    if e[0] == "as" and e[1] == "u32" and e[2][0] == "method" and e[2][1] == "len":
        return "len"
    if e[0] == "num":
        return hex(e[1])
    if e[0] == "var":
        return e[1]
    if e[0] == "deref":
        return emit_init(e[1])
    raise TranslationError(f"initial value expression unsupported: {e}")


def parse_new_state(body):
    """the `state[i] = …;` statements of Salsa20Cipher::new, textually extracted in order."""
    stmts = []
    for m in re.finditer(r"^\s*state\[(\d+)\]\s*=\s*(.*?);", body, re.M | re.S):
        stmts += parse_block_text(m.group(0))
    if len(stmts) < 16:
        raise TranslationError(f"Salsa20Cipher::new: expected >= 16 `state[i] = …` assignments, found {len(stmts)}")
    return stmts


def main():
    try:
        text = translate()
    except (TranslationError, OSError, ValueError) as ex:
        text = ("/-\nGENERATED by lib/rs2lean.py — TRANSLATION FAILED: the Rust source left the supported subset.\n"
                + str(ex).replace("-/", "- /") + "\n-/\n"
                "import Cascette.Model.Salsa20\nimport Cascette.Model.Jenkins\n"
                "namespace Cascette.Generated\n"
                f"def translation_failed : String := {json_str(str(ex))}\n"
                "end Cascette.Generated\n")
        print("rs2lean: translation failed:", ex, file=sys.stderr)
    os.makedirs(os.path.dirname(OUT), exist_ok=True)
    old = open(OUT).read() if os.path.exists(OUT) else None
    if old != text:
        with open(OUT, "w") as f:
            f.write(text)
        print("rs2lean: wrote", OUT)
    else:
        print("rs2lean: unchanged")
    return 0


def json_str(s):
    return '"' + s.replace("\\", "\\\\").replace('"', '\\"').replace("\n", " ") + '"'


if __name__ == "__main__":
    sys.exit(main())
