#!/usr/bin/env python3
"""
rs2lean_keys — extracts, from the CURRENT Rust source, the text-building fragments that decide
where the caches and the CDN client put things (property C20), and writes them as Lean definitions
to lean/Cascette/Generated/KeysSrc.lean.  Run by `./check C20` on every run (before `lake build`);
Proofs/KeysTie.lean proves that the hand-written models (Model/CacheKeys, Model/KeysExt,
Model/DiskFs) compute exactly these texts.  A changed separator, format string, argument order,
slice index, whitelist character, length bound or constructor body in /repo changes the generated
Lean and breaks a tie theorem (reported by ./check as a T failure).

Each fragment is located by a strict pattern; a fragment that is no longer found in the expected
shape is a translation error (non-zero exit), never a silent default.

Extracted:
  cascette-cache/src/key.rs         the ten key structs' public fields; EVERY `pub fn … -> Self`
                                    constructor (name list + the field values its body stores);
                                    CacheKeyBuffer::{format_ribbit, format_config, format_blte}
                                    (push_str / push / write! sequences); every `as_cache_key`
                                    (format strings, argument order, Option arms, raw/parsed words)
  cascette-cache/src/disk_cache.rs  get_file_path: hash multiplier, shift per level, mask, the
                                    `{dir_byte:02x}` directory format; write_file: the "tmp" extension
  cascette-protocol/src/client/mod.rs   validate_endpoint: length bound, character whitelist,
                                    absolute prefix, split separator, refused segments (and the order
                                    of the four checks); the cache key format "api/ribbit/{endpoint}"
  cascette-protocol/src/optimized.rs    format_cache_key
  cascette-protocol/src/cdn/mod.rs  normalize_cdn_path trim character; ContentType Display words;
                                    check_key / check_archive_key bounds; build_url, download cache
                                    key, archive-index cache key and URLs (format strings, argument
                                    order, slice indices, default scheme); the Range header expression
  cascette-protocol/src/cdn/range.rs    download_archive_content: name check, both URL formats
  cascette-client-storage/src/…     format_content_key_path slices; LRU_EXTENSION and the `{b:02x}`
                                    generation format; "{bucket:02x}{version:08x}.idx"; "data.{:03}";
                                    presence of the open_installation name check
"""
import os, re, sys

REPO = os.environ.get("VERIF_REPO", "/repo")
OUT = os.path.join(os.path.dirname(os.path.dirname(os.path.abspath(__file__))),
                   "lean/Cascette/Generated/KeysSrc.lean")
CR = os.path.join(REPO, "crates")


class TranslationError(Exception):
    pass


# ------------------------------------------------------------------ text helpers
def read(rel):
    return open(os.path.join(CR, rel)).read()


def strip_comments(src):
    """remove // line comments (not inside string literals) — the patterns below work on code."""
    out = []
    for line in src.split("\n"):
        i, instr, esc = 0, False, False
        cut = len(line)
        while i < len(line):
            c = line[i]
            if instr:
                if esc:
                    esc = False
                elif c == "\\":
                    esc = True
                elif c == '"':
                    instr = False
            else:
                if c == '"':
                    instr = True
                elif c == "'" and i + 2 < len(line) and line[i + 2] == "'":
                    i += 2
                elif line.startswith("//", i):
                    cut = i
                    break
            i += 1
        out.append(line[:cut])
    return "\n".join(out)


def block_at(src, i):
    """src[i] == '{' -> (inner text, index after the closing brace); string literals respected."""
    assert src[i] == "{"
    depth, j, instr, esc = 0, i, False, False
    while j < len(src):
        c = src[j]
        if instr:
            if esc:
                esc = False
            elif c == "\\":
                esc = True
            elif c == '"':
                instr = False
        else:
            if c == '"':
                instr = True
            elif c == "'" and j + 2 < len(src) and src[j + 2] == "'":
                j += 2
            elif c == "{":
                depth += 1
            elif c == "}":
                depth -= 1
                if depth == 0:
                    return src[i + 1:j], j + 1
        j += 1
    raise TranslationError("unbalanced braces")


def one(pattern, text, what, flags=re.S):
    ms = list(re.finditer(pattern, text, flags))
    if len(ms) != 1:
        raise TranslationError(f"{what}: expected exactly one match of /{pattern}/, found {len(ms)}")
    return ms[0]


def fn_body(src, name, what=None):
    m = one(r"\bfn\s+" + re.escape(name) + r"\b", src, what or f"fn {name}")
    i = src.index("{", m.end())
    return block_at(src, i)[0]


def fn_sig_and_body(src, name):
    m = one(r"\bfn\s+" + re.escape(name) + r"\s*(?:<[^>]*>)?\s*\(", src, f"fn {name}")
    # parameter list up to the matching ')'
    depth, j = 1, m.end()
    while depth:
        if src[j] == "(":
            depth += 1
        elif src[j] == ")":
            depth -= 1
        j += 1
    params = src[m.end():j - 1]
    i = src.index("{", j)
    return params, block_at(src, i)[0]


def split_top(s, sep=","):
    """split at separators outside (), [], <>, {} and string literals."""
    out, depth, cur, instr, esc = [], 0, [], False, False
    i = 0
    while i < len(s):
        c = s[i]
        if instr:
            cur.append(c)
            if esc:
                esc = False
            elif c == "\\":
                esc = True
            elif c == '"':
                instr = False
        elif c == '"':
            instr = True
            cur.append(c)
        elif c in "([{<":
            depth += 1
            cur.append(c)
        elif c in ")]}>" and not (c == ">" and i and s[i - 1] in "=-"):
            depth -= 1
            cur.append(c)
        elif c == sep and depth == 0:
            out.append("".join(cur).strip())
            cur = []
        else:
            cur.append(c)
        i += 1
    last = "".join(cur).strip()
    if last:
        out.append(last)
    return out


def chars(s):
    """Lean `List Char` literal of a Python string."""
    def ch(c):
        if c == "'":
            return "'\\''"
        if c == "\\":
            return "'\\\\'"
        if ord(c) < 32 or ord(c) > 126:
            raise TranslationError(f"non-printable character in literal {s!r}")
        return f"'{c}'"
    return "[" + ", ".join(ch(c) for c in s) + "]"


def rust_str(lit):
    """the text of a Rust string literal without escapes we do not expect."""
    m = re.fullmatch(r'"((?:[^"\\]|\\.)*)"', lit.strip())
    if not m:
        raise TranslationError(f"not a string literal: {lit!r}")
    if "\\" in m.group(1):
        raise TranslationError(f"escape in string literal {lit!r}")
    return m.group(1)


def cat(parts):
    """Lean append chain of list expressions (every compound piece is parenthesised by its producer)."""
    parts = [p for p in parts if p != "[]"] or ["[]"]
    return " ++ ".join(parts)


# ------------------------------------------------------------------ format strings
TY = {"String": "Str", "&str": "Str", "impl Into<String>": "Str", "ContentKey": "Str", "EncodingKey": "Str",
      "&EncodingKey": "Str", "&ContentKey": "Str",
      "u8": "Nat", "u16": "Nat", "u32": "Nat", "u64": "Nat", "usize": "Nat", "bool": "Bool",
      "Option<String>": "Option Str", "Option<&str>": "Option Str",
      "Option<u8>": "Option Nat", "Option<u32>": "Option Nat", "Option<u64>": "Option Nat"}


def lean_ty(rust):
    rust = re.sub(r"\s+", " ", rust.strip())
    if rust not in TY:
        raise TranslationError(f"type not understood: {rust!r}")
    t = TY[rust]
    return "Option (List Char)" if t == "Option Str" else t.replace("Str", "List Char")


def display(expr, ty, spec, what):
    """Lean text of `{expr:spec}` for a value of Lean type `ty`."""
    if spec:
        if ty != "Nat":
            raise TranslationError(f"{what}: format spec {spec!r} on a non-integer")
        return f"fmt {chars(spec)} {expr}"
    if ty == "List Char":
        return expr
    if ty == "Nat":
        return f"Nat.toDigits 10 {expr}"
    raise TranslationError(f"{what}: cannot Display a value of type {ty}")


def format_pieces(fmt, args, env, what):
    """Rust format string + positional argument expressions -> list of Lean list expressions.
    env: rust expression -> (lean expression, lean type)."""
    pieces, pos, i, lit = [], 0, 0, ""
    while i < len(fmt):
        c = fmt[i]
        if c == "{":
            if fmt.startswith("{{", i):
                raise TranslationError(f"{what}: escaped brace in format string")
            j = fmt.index("}", i)
            inner = fmt[i + 1:j]
            name, _, spec = inner.partition(":")
            if lit:
                pieces.append(chars(lit))
                lit = ""
            if name == "":
                if pos >= len(args):
                    raise TranslationError(f"{what}: more placeholders than arguments")
                key = args[pos]
                pos += 1
            else:
                key = name
            if key not in env:
                raise TranslationError(f"{what}: format argument {key!r} not understood")
            e, ty = env[key]
            pieces.append(display(e, ty, spec, what))
            i = j + 1
        elif c == "}":
            raise TranslationError(f"{what}: stray closing brace")
        else:
            lit += c
            i += 1
    if lit:
        pieces.append(chars(lit))
    if pos != len(args):
        raise TranslationError(f"{what}: {len(args)} arguments for {pos} placeholders")
    return pieces


def parse_format_macro(text, what):
    """`format!( "fmt", a, b )` (text = inside of the parentheses) -> (fmt, [args])."""
    parts = split_top(text)
    if not parts:
        raise TranslationError(f"{what}: empty format!")
    return rust_str(parts[0]), [re.sub(r"\s+", " ", a) for a in parts[1:]]


def macro_args(src, start, what):
    """src[start] is the '(' of a macro/function call -> (inside, index after ')')."""
    assert src[start] == "("
    depth, j, instr, esc = 0, start, False, False
    while j < len(src):
        c = src[j]
        if instr:
            if esc:
                esc = False
            elif c == "\\":
                esc = True
            elif c == '"':
                instr = False
        elif c == '"':
            instr = True
        elif c == "(":
            depth += 1
        elif c == ")":
            depth -= 1
            if depth == 0:
                return src[start + 1:j], j + 1
        j += 1
    raise TranslationError(f"{what}: unbalanced parentheses")


# ------------------------------------------------------------------ key.rs
KEY_TYPES = ["RibbitKey", "ConfigKey", "BlteKey", "ContentCacheKey", "ArchiveIndexKey", "ManifestKey",
             "RootFileKey", "EncodingFileKey", "ArchiveRangeKey", "BlteBlockKey"]


def struct_fields(src, typ):
    m = one(r"\bpub struct " + typ + r"\s*\{", src, f"struct {typ}")
    body, _ = block_at(src, m.end() - 1)
    fields = []
    for item in split_top(body):
        item = re.sub(r"#\[[^\]]*\]", "", item).strip()
        mm = re.fullmatch(r"(pub\s+)?(\w+)\s*:\s*(.+)", item, re.S)
        if not mm:
            raise TranslationError(f"struct {typ}: field not understood: {item!r}")
        if mm.group(2) in ("cached_key", "cached_hash"):
            if mm.group(1):
                raise TranslationError(f"struct {typ}: memo field {mm.group(2)} is public")
            continue
        if not mm.group(1):
            raise TranslationError(f"struct {typ}: unexpected private field {mm.group(2)}")
        fields.append((mm.group(2), lean_ty(mm.group(3))))
    return fields


def impl_block(src, typ):
    m = one(r"^impl " + typ + r"\s*\{", src, f"impl {typ}", re.M)
    return block_at(src, m.end() - 1)[0]


def pub_fns(impl):
    """[(name, params text, return type, body)] of the `pub fn`s of an impl block (top level)."""
    out, i = [], 0
    for m in re.finditer(r"\bpub\s+(?:const\s+)?fn\s+(\w+)\s*\(", impl):
        if m.start() < i:
            continue
        params, j = macro_args(impl, m.end() - 1, m.group(1))
        k = impl.index("{", j)
        ret = impl[j:k].strip()
        ret = ret[2:].strip() if ret.startswith("->") else ""
        body, i = block_at(impl, k)
        out.append((m.group(1), params, ret, body))
    return out


def ctor_value(expr, params, what):
    """field initialiser -> Lean expression."""
    e = re.sub(r"\s+", "", expr)
    m = re.fullmatch(r"Some\((.+)\)", e)
    if m:
        return "some " + ctor_value(m.group(1), params, what)
    if e == "None":
        return "none"
    if e in ("true", "false"):
        return e
    e = re.sub(r"\.into\(\)$", "", e)
    if e in params:
        return e
    raise TranslationError(f"{what}: field initialiser not understood: {expr!r}")


def translate_buffer_stmts(body, buf, env, what):
    """a CacheKeyBuffer-style statement sequence -> list of Lean list expressions."""
    pieces, i = [], 0
    body = body.strip()
    pat_skip = [r"%s\.clear\(\);" % buf, r"%s\.reserve\([^;]*\);" % buf]
    while i < len(body):
        rest = body[i:]
        if not rest.strip():
            break
        ws = len(rest) - len(rest.lstrip())
        if ws:
            i += ws
            continue
        matched = False
        for p in pat_skip:
            m = re.match(p, rest)
            if m:
                i += m.end()
                matched = True
                break
        if matched:
            continue
        m = re.match(r'%s\.push_str\(("(?:[^"\\]|\\.)*")\);' % buf, rest)
        if m:
            pieces.append(chars(rust_str(m.group(1))))
            i += m.end()
            continue
        m = re.match(r"%s\.push_str\((\w+)\);" % buf, rest)
        if m:
            if m.group(1) not in env or env[m.group(1)][1] != "List Char":
                raise TranslationError(f"{what}: push_str of {m.group(1)!r} not understood")
            pieces.append(env[m.group(1)][0])
            i += m.end()
            continue
        m = re.match(r"%s\.push\('(.)'\);" % buf, rest)
        if m:
            pieces.append(chars(m.group(1)))
            i += m.end()
            continue
        m = re.match(r"let _ = write!\(", rest)
        if m:
            inside, j = macro_args(rest, m.end() - 1, what)
            parts = split_top(inside)
            if re.sub(r"\s+", "", parts[0]) != "&mut" + buf.replace("\\", ""):
                raise TranslationError(f"{what}: write! target {parts[0]!r}")
            fmt = rust_str(parts[1])
            pieces += format_pieces(fmt, [re.sub(r"\s+", " ", a) for a in parts[2:]], env, what)
            mm = re.match(r"\s*;", rest[j:])
            if not mm:
                raise TranslationError(f"{what}: write! not terminated")
            i += j + mm.end()
            continue
        m = re.match(r"if let Some\((\w+)\) = (\w+) \{", rest)
        if m:
            v, o = m.group(1), m.group(2)
            if o not in env or not env[o][1].startswith("Option "):
                raise TranslationError(f"{what}: `if let Some` on {o!r} not understood")
            inner, j = block_at(rest, m.end() - 1)
            env2 = dict(env)
            env2[v] = (v, env[o][1][len("Option "):].strip("()"))
            sub = translate_buffer_stmts(inner, buf, env2, what)
            pieces.append(f"(match {env[o][0]} with | some {v} => {cat(sub)} | none => [])")
            i += j
            continue
        m = re.match(r"&%s$" % buf, rest.strip())
        if m:
            break
        m = re.match(r"%s\.clone\(\)$" % buf, rest.strip())
        if m:
            break
        raise TranslationError(f"{what}: statement not understood: {rest[:60]!r}")
    return pieces


def translate_key_rs(w):
    src = strip_comments(read("cascette-cache/src/key.rs"))
    # --- CacheKeyBuffer
    kb = impl_block(src, "CacheKeyBuffer")
    buffer_fns = {}
    for name in ["format_ribbit", "format_config", "format_blte"]:
        params, body = fn_sig_and_body(kb, name)
        ps = split_top(params)
        if re.sub(r"\s+", "", ps[0]) != "&mutself":
            raise TranslationError(f"{name}: receiver")
        plist = []
        for p in ps[1:]:
            n, _, t = p.partition(":")
            plist.append((n.strip(), lean_ty(t)))
        env = {n: (n, t) for n, t in plist}
        pieces = translate_buffer_stmts(body, r"self\.buffer", env, f"CacheKeyBuffer::{name}")
        w(f"/-- `CacheKeyBuffer::{name}` -/")
        w(f"def {name} " + " ".join(f"({n} : {t})" for n, t in plist) + " : List Char :=")
        w("  " + cat(pieces))
        buffer_fns[name] = [n for n, _ in plist]
    w("")
    ctor_names = []
    for typ in KEY_TYPES:
        fields = struct_fields(src, typ)
        fnames = [f for f, _ in fields]
        impl = impl_block(src, typ)
        fns = pub_fns(impl)
        names = [f[0] for f in fns]
        for need in ("as_cache_key", "fast_hash"):
            if need not in names:
                raise TranslationError(f"impl {typ}: no pub fn {need}")
        for name, params, ret, body in fns:
            if name in ("as_cache_key", "fast_hash"):
                continue
            if ret != "Self":
                raise TranslationError(f"impl {typ}: pub fn {name} returns {ret!r} (not a constructor, not known)")
            # ---- constructor
            plist = []
            for p in split_top(params):
                n, _, t = p.partition(":")
                plist.append((n.strip(), lean_ty(t)))
            pnames = [n for n, _ in plist]
            m = one(r"^\s*Self\s*\{", body, f"{typ}::{name}: body is not a single struct literal")
            lit, end = block_at(body, body.index("{", m.start()))
            if body[end:].strip():
                raise TranslationError(f"{typ}::{name}: code after the struct literal")
            inits = {}
            for item in split_top(lit):
                f, sep, e = item.partition(":")
                f = f.strip()
                inits[f] = e.strip() if sep else f
            for memo in ("cached_key", "cached_hash"):
                if re.sub(r"\s+", "", inits.pop(memo, "")) != "OnceLock::new()":
                    raise TranslationError(f"{typ}::{name}: {memo} is not OnceLock::new()")
            if sorted(inits) != sorted(fnames):
                raise TranslationError(f"{typ}::{name}: struct literal fields {sorted(inits)}")
            vals = [ctor_value(inits[f], pnames, f"{typ}::{name}") for f in fnames]
            w(f"/-- `{typ}::{name}`: the field values ({', '.join(fnames)}) its body stores -/")
            w(f"def {typ}.{name} " + " ".join(f"({n} : {t})" for n, t in plist) + " : "
              + " × ".join(t for _, t in fields) + " :=")
            w("  (" + ", ".join(vals) + ")" if len(vals) > 1 else "  " + vals[0])
            ctor_names.append(f"{typ}::{name}")
        # ---- as_cache_key
        body = [b for n, _, _, b in fns if n == "as_cache_key"][0]
        what = f"{typ}::as_cache_key"
        env = {"self." + f: (f, t) for f, t in fields}
        m = re.search(r"\.\s*format_(\w+)\(", body)
        if m:
            inside, _ = macro_args(body, m.end() - 1, what)
            fname = "format_" + m.group(1)
            if fname not in buffer_fns:
                raise TranslationError(f"{what}: unknown buffer function {fname}")
            args = []
            for a in split_top(inside):
                a = re.sub(r"\s+", "", a)
                mm = re.fullmatch(r"&?self\.(\w+)(?:\.as_deref\(\))?", a)
                if not mm or mm.group(1) not in fnames:
                    raise TranslationError(f"{what}: argument {a!r} not understood")
                args.append(mm.group(1))
            if len(args) != len(buffer_fns[fname]):
                raise TranslationError(f"{what}: arity of {fname}")
            if not re.search(r"self\s*\.\s*cached_key\s*\.\s*get_or_init\(", body):
                raise TranslationError(f"{what}: no cached_key.get_or_init")
            expr = fname + " " + " ".join(args)
        else:
            m = one(r"self\s*\.\s*cached_key\s*\.\s*get_or_init\(\s*\|\|", body, what)
            clo = body[m.end():].strip()
            # closure body: either `{ … }` or a single expression up to the closing ')'
            if clo.startswith("{"):
                clo, _ = block_at(clo, 0)
            else:
                depth, j = 1, 0
                while depth:
                    if clo[j] == "(":
                        depth += 1
                    elif clo[j] == ")":
                        depth -= 1
                    j += 1
                clo = clo[:j - 1]
            clo = clo.strip()
            # leading `let name = if self.f { "a" } else { "b" };`
            while True:
                mm = re.match(r'let (\w+) = if self\.(\w+)\s*\{\s*("[^"]*")\s*\}\s*else\s*\{\s*("[^"]*")\s*\};', clo)
                if not mm:
                    break
                v, f = mm.group(1), mm.group(2)
                if ("self." + f) not in env or env["self." + f][1] != "Bool":
                    raise TranslationError(f"{what}: `if self.{f}` is not a bool field")
                env[v] = (f"(if {f} then {chars(rust_str(mm.group(3)))} else {chars(rust_str(mm.group(4)))})", "List Char")
                clo = clo[mm.end():].strip()

            def fmt_expr(text, env):
                text = text.strip().rstrip(",").strip()
                mm = re.match(r"format!\(", text)
                if not mm:
                    raise TranslationError(f"{what}: expected format!, found {text[:50]!r}")
                inside, j = macro_args(text, mm.end() - 1, what)
                if text[j:].strip():
                    raise TranslationError(f"{what}: code after format!: {text[j:][:40]!r}")
                fmt, args = parse_format_macro(inside, what)
                return cat(format_pieces(fmt, args, env, what))
            mm = re.match(r"match &?self\.(\w+)\s*\{", clo)
            if mm:
                f = mm.group(1)
                if ("self." + f) not in env or not env["self." + f][1].startswith("Option "):
                    raise TranslationError(f"{what}: match on non-Option field {f}")
                arms_text, j = block_at(clo, mm.end() - 1)
                if clo[j:].strip():
                    raise TranslationError(f"{what}: code after match")
                arms = split_top(arms_text)
                if len(arms) != 2:
                    raise TranslationError(f"{what}: expected two match arms, found {len(arms)}")
                a_some = re.match(r"Some\((\w+)\)\s*=>", arms[0])
                a_none = re.match(r"None\s*=>", arms[1])
                if not a_some or not a_none:
                    raise TranslationError(f"{what}: match arms not `Some(v) => …, None => …`")
                v = a_some.group(1)
                env2 = dict(env)
                env2[v] = (v, env["self." + f][1][len("Option "):].strip("()"))
                e_some = fmt_expr(arms[0][a_some.end():], env2)
                e_none = fmt_expr(arms[1][a_none.end():], env)
                expr = f"match {f} with\n    | some {v} => {e_some}\n    | none => {e_none}"
            else:
                expr = fmt_expr(clo, env)
        w(f"/-- `{typ}::as_cache_key` as a function of the public fields -/")
        w(f"def {typ}.as_cache_key " + " ".join(f"({n} : {t})" for n, t in fields) + " : List Char :=")
        w("  " + expr)
        w("")
    w("/-- every `pub fn … -> Self` of the ten key types, in source order -/")
    w("def constructor_names : List String := [" + ", ".join(f'"{n}"' for n in ctor_names) + "]")
    w("")


# ------------------------------------------------------------------ disk_cache.rs
def translate_disk_cache(w):
    src = strip_comments(read("cascette-cache/src/disk_cache.rs"))
    g = fn_body(src, "get_file_path")
    m = one(r"fold\(0u64, \|acc, &b\| \{\s*acc\.wrapping_mul\((\d+)\)\.wrapping_add\(u64::from\(b\)\)\s*\}\)", g,
            "get_file_path: key hash fold")
    w("/-- `get_file_path`: `acc.wrapping_mul(M).wrapping_add(byte)` over the key bytes, from 0u64 -/")
    w(f"def hash_mul : Nat := {m.group(1)}")
    m = one(r"for level in 0\.\.self\.config\.subdirectory_levels \{\s*let dir_byte = \(\(hash >> \(level \* (\d+)\)\) & (0x[0-9A-Fa-f]+|\d+)\) as u8;\s*"
            r"path\.push\(format!\(\"\{dir_byte:(\w+)\}\"\)\);\s*\}", g, "get_file_path: directory level loop")
    w("/-- `((hash >> (level * S)) & MASK) as u8`, pushed as `format!(\"{dir_byte:SPEC}\")` -/")
    w(f"def subdir_shift : Nat := {m.group(1)}")
    w(f"def subdir_mask : Nat := {m.group(2)}")
    w(f"def subdir_spec : List Char := {chars(m.group(3))}")
    if not re.search(r"path\.push\(key_str\);\s*path\s*\}\s*else\s*\{\s*self\.config\.cache_dir\.join\(key_str\)\s*\}", g):
        raise TranslationError("get_file_path: `path.push(key_str)` / `cache_dir.join(key_str)` not found")
    # the string that is pushed / joined is the key text itself, bound once and not re-spelled
    if len(re.findall(r"\blet\s+(?:mut\s+)?key_str\b", g)) != 1 or not re.search(r"let key_str = key\.as_cache_key\(\);", g):
        raise TranslationError("get_file_path: `key_str` is not (only) `key.as_cache_key()`: the file name is no longer the key text")
    wf = fn_body(src, "write_file")
    m = one(r'let temp_path = path\.with_extension\("(\w+)"\);', wf, "write_file: temp name")
    w("/-- `write_file`: `path.with_extension(EXT)` -/")
    w(f"def tmp_extension : List Char := {chars(m.group(1))}")
    w("")


# ------------------------------------------------------------------ client/mod.rs, optimized.rs
def translate_client(w):
    src = strip_comments(read("cascette-protocol/src/client/mod.rs"))
    v = fn_body(src, "validate_endpoint")
    p_empty = one(r"if endpoint\.is_empty\(\) \{\s*return Err\(ProtocolError::InvalidEndpoint", v, "validate_endpoint: empty check")
    p_len = one(r"if endpoint\.len\(\) > (\d+) \{\s*return Err\(ProtocolError::InvalidEndpoint", v, "validate_endpoint: length check")
    p_chr = one(r"for c in endpoint\.chars\(\) \{\s*if !c\.is_alphanumeric\(\) && !matches!\(c, ([^)]*)\) \{\s*return Err\(ProtocolError::InvalidEndpoint",
                v, "validate_endpoint: character whitelist")
    p_seg = one(r"if endpoint\.starts_with\('(.)'\) \|\| endpoint\.split\('(.)'\)\.any\(\|s\| ([^)]*)\) \{\s*return Err\(\s*ProtocolError::InvalidEndpoint",
                v, "validate_endpoint: relative-path check")
    if not (p_empty.start() < p_len.start() < p_chr.start() < p_seg.start()):
        raise TranslationError("validate_endpoint: the four checks are not in the expected order")
    if not re.search(r"\}\s*Ok\(\(\)\)\s*$", v):
        raise TranslationError("validate_endpoint: does not end in Ok(())")
    if len(re.findall(r"return Err", v)) != 4:
        raise TranslationError("validate_endpoint: expected exactly four error returns")
    extra = []
    for alt in p_chr.group(1).split("|"):
        m = re.fullmatch(r"'(.)'", alt.strip())
        if not m:
            raise TranslationError(f"validate_endpoint: whitelist alternative {alt!r}")
        extra.append(m.group(1))
    segs = []
    for alt in p_seg.group(3).split("||"):
        m = re.fullmatch(r's == "([^"]*)"', alt.strip())
        if not m:
            raise TranslationError(f"validate_endpoint: segment rule {alt!r}")
        segs.append(m.group(1))
    w("/-- `validate_endpoint`: `endpoint.len() > N` is refused -/")
    w(f"def endpoint_max_len : Nat := {p_len.group(1)}")
    w("/-- characters accepted besides `char::is_alphanumeric` -/")
    w(f"def endpoint_extra_chars : List Char := {chars(''.join(extra))}")
    w("/-- `endpoint.starts_with(C)` is refused -/")
    w(f"def endpoint_abs_prefix : Char := {chars(p_seg.group(1))[1:-1]}")
    w("/-- `endpoint.split(C).any(|s| s == … || …)` is refused -/")
    w(f"def endpoint_split_sep : Char := {chars(p_seg.group(2))[1:-1]}")
    w("def endpoint_bad_segments : List (List Char) := [" + ", ".join(chars(s) for s in segs) + "]")
    q = strip_comments(read("cascette-protocol/src/client/mod.rs"))
    m = one(r'validate_endpoint\(endpoint\)\?;\s*let cache_key = format!\(("[^"]*")\);', q, "query: cache key format")
    pieces = format_pieces(rust_str(m.group(1)), [], {"endpoint": ("endpoint", "List Char")}, "query cache key")
    w("/-- `RibbitTactClient::query`: `format!(…)` right after `validate_endpoint(endpoint)?` -/")
    w("def ribbit_cache_key (endpoint : List Char) : List Char :=")
    w("  " + cat(pieces))
    w("")
    o = strip_comments(read("cascette-protocol/src/optimized.rs"))
    params, body = fn_sig_and_body(o, "format_cache_key")
    if re.sub(r"\s+", "", params) != "prefix:&str,endpoint:&str":
        raise TranslationError("format_cache_key: parameters")
    m = one(r"CACHE_KEY_BUFFER\.with\(\|buffer\| \{\s*let mut buf = buffer\.borrow_mut\(\);", body, "format_cache_key: buffer")
    inner = body[m.end():]
    inner = inner[:inner.rindex("}")]
    env = {"prefix": ("pfx", "List Char"), "endpoint": ("endpoint", "List Char")}
    pieces = translate_buffer_stmts(inner, "buf", env, "format_cache_key")
    w("/-- `cascette_protocol::format_cache_key` -/")
    w("def format_cache_key (pfx endpoint : List Char) : List Char :=")
    w("  " + cat(pieces))
    w("")


# ------------------------------------------------------------------ cdn/mod.rs, cdn/range.rs
def cdn_arg_env(hexvar):
    """Rust argument expressions of the CDN format! calls -> Lean."""
    env = {
        "scheme": ("scheme", "List Char"),
        "endpoint.host": ("host", "List Char"),
        "cdn_endpoint.host": ("host", "List Char"),
        "base_path": ("trim path", "List Char"),
        "normalize_cdn_path(&endpoint.path)": ("trim path", "List Char"),
        "cdn_endpoint.path": ("path", "List Char"),
        "product_path": ("ppath", "List Char"),
        "content_type": ("ct", "List Char"),
        hexvar: ("h", "List Char"),
    }
    return env


class SliceEnv(dict):
    """adds `&v[a..b]` / `&v[..b]` for the one sliced variable."""
    def __init__(self, base, var):
        super().__init__(base)
        self.var = var

    def __contains__(self, k):
        return dict.__contains__(self, k) or self._slice(k) is not None

    def _slice(self, k):
        m = re.fullmatch(r"&" + re.escape(self.var) + r"\[(\d*)\.\.(\d+)\]", k.replace(" ", ""))
        if m:
            return (f"sl h {m.group(1) or '0'} {m.group(2)}", "List Char")
        return None

    def __getitem__(self, k):
        s = self._slice(k)
        return s if s is not None else dict.__getitem__(self, k)


def the_format(body, anchor, what):
    """the single `format!(…)` that follows `anchor` in body -> (fmt, args)."""
    m = one(anchor + r"\s*format!\(", body, what)
    inside, _ = macro_args(body, m.end() - 1, what)
    return parse_format_macro(inside, what)


def translate_cdn(w):
    src = strip_comments(read("cascette-protocol/src/cdn/mod.rs"))
    n = fn_body(src, "normalize_cdn_path")
    m = one(r"^\s*path\.trim_end_matches\('(.)'\)\s*$", n, "normalize_cdn_path")
    w("/-- `normalize_cdn_path`: `path.trim_end_matches(C)` -/")
    w(f"def cdn_trim_char : Char := {chars(m.group(1))[1:-1]}")
    d = one(r"impl fmt::Display for ContentType \{", src, "Display for ContentType")
    disp, _ = block_at(src, d.end() - 1)
    words = {}
    for var in ("Config", "Data", "Patch"):
        mm = one(r'Self::' + var + r' => write!\(f, ("[^"]*")\),', disp, f"ContentType::{var} Display")
        words[var] = rust_str(mm.group(1))
    w("/-- `Display for ContentType` -/")
    for var in ("Config", "Data", "Patch"):
        w(f"def content_type_{var.lower()} : List Char := {chars(words[var])}")
    ck = fn_body(src, "check_key")
    m = one(r"^\s*if key\.len\(\) < (\d+) \{\s*return Err\(ProtocolError::InvalidKey\);\s*\}\s*Ok\(\(\)\)\s*$", ck, "check_key")
    w("/-- `check_key`: `key.len() < N` is `InvalidKey` -/")
    w(f"def check_key_min_len : Nat := {m.group(1)}")
    ca = fn_body(src, "check_archive_key")
    m = one(r"^\s*if archive_key\.len\(\) < (\d+) \|\| !archive_key\.bytes\(\)\.all\(\|b\| b\.(\w+)\(\)\) \{\s*return Err\(ProtocolError::InvalidKey\);\s*\}\s*Ok\(\(\)\)\s*$",
            ca, "check_archive_key")
    if m.group(2) != "is_ascii_hexdigit":
        raise TranslationError(f"check_archive_key: byte class {m.group(2)!r}")
    w("/-- `check_archive_key`: `len() < N || !bytes().all(is_ascii_hexdigit)` is `InvalidKey` -/")
    w(f"def archive_key_min_len : Nat := {m.group(1)}")
    # --- build_url
    bu = fn_body(src, "build_url")
    if not re.search(r"let hex_key = hex::encode\(key\);", bu):
        raise TranslationError("build_url: hex_key")
    if not re.search(r"let base_path = normalize_cdn_path\(&endpoint\.path\);", bu):
        raise TranslationError("build_url: base_path")
    m = one(r'let scheme = endpoint\.scheme\.as_deref\(\)\.unwrap_or\(("[^"]*")\);', bu, "build_url: default scheme")
    default_scheme = rust_str(m.group(1))
    w("/-- `endpoint.scheme.as_deref().unwrap_or(…)` -/")
    w(f"def default_scheme : List Char := {chars(default_scheme)}")
    sig = "(sl : List Char → Nat → Nat → List Char) (trim : List Char → List Char)"
    fmt, args = the_format(bu, r"", "build_url: format!")
    env = SliceEnv(cdn_arg_env("hex_key"), "hex_key")
    w("/-- `build_url`: the URL as a function of scheme, host, CDN path, content-type word and key hex -/")
    w(f"def build_url {sig} (scheme host path ct h : List Char) : List Char :=")
    w("  " + cat(format_pieces(fmt, args, env, "build_url")))
    # --- download
    dl = fn_body(src, "download")
    pre = one(r"^\s*Self::check_key\(key\)\?;\s*let hex_key = hex::encode\(key\);", dl, "download: check_key first")
    fmt, args = the_format(dl, r"let cache_key =", "download: cache key")
    w("/-- `download`: cache key (after `check_key(key)?`) -/")
    w(f"def download_cache_key {sig} (path ct h : List Char) : List Char :=")
    w("  " + cat(format_pieces(fmt, args, env, "download cache key")))
    for fn in ("download_with_resume", "download_range", "get_file_size"):
        b = fn_body(src, fn)
        if not re.match(r"\s*Self::check_key\(key\)\?;", b):
            raise TranslationError(f"{fn}: does not start with check_key(key)?")
    n_prog = len(re.findall(r"pub async fn download_with_progress<F>\([^{]*\{\s*Self::check_key\(key\)\?;", src))
    if n_prog != 2:
        raise TranslationError("download_with_progress: check_key(key)? not first in both variants")
    # --- range header
    dr = fn_body(src, "download_range")
    m = one(r'\.header\("Range", format!\(("[^"]*"), offset, ([^)]*)\)\)', dr, "download_range: Range header")
    if re.sub(r"\s+", "", m.group(2)) != "offset+length-1":
        raise TranslationError(f"download_range: range end expression {m.group(2)!r}")
    pieces = format_pieces(rust_str(m.group(1)), ["offset", "last"],
                           {"offset": ("offset", "Nat"), "last": ("last", "Nat")}, "Range header")
    w("/-- `download_range`: the Range header; `last` stands for `offset + length - 1` -/")
    w("def range_header (offset last : Nat) : List Char :=")
    w("  " + cat(pieces))
    # --- archive index
    ai = fn_body(src, "download_archive_index")
    if not re.match(r"\s*Self::check_archive_key\(archive_key\)\?;", ai):
        raise TranslationError("download_archive_index: does not start with check_archive_key")
    envA = SliceEnv(cdn_arg_env("archive_key"), "archive_key")
    fmt, args = the_format(ai, r"let cache_key =", "download_archive_index: cache key")
    w("/-- `download_archive_index`: cache key (after `check_archive_key`) -/")
    w(f"def archive_index_cache_key {sig} (path h : List Char) : List Char :=")
    w("  " + cat(format_pieces(fmt, args, envA, "archive index cache key")))
    if not re.search(r'let scheme = endpoint\.scheme\.as_deref\(\)\.unwrap_or\("' + re.escape(default_scheme) + r'"\);\s*'
                     r"let base_path = normalize_cdn_path\(&endpoint\.path\);\s*let url = format!", ai):
        raise TranslationError("download_archive_index: scheme / base_path bindings")
    fmt, args = the_format(ai, r"let url =", "download_archive_index: url")
    w("/-- `download_archive_index`: URL -/")
    w(f"def archive_index_url {sig} (scheme host path h : List Char) : List Char :=")
    w("  " + cat(format_pieces(fmt, args, envA, "archive index url")))
    gi = fn_body(src, "get_index_size")
    if not re.match(r"\s*Self::check_archive_key\(archive_key\)\?;\s*"
                    r'let scheme = endpoint\.scheme\.as_deref\(\)\.unwrap_or\("' + re.escape(default_scheme) + r'"\);\s*'
                    r"let base_path = normalize_cdn_path\(&endpoint\.path\);\s*let url = format!", gi):
        raise TranslationError("get_index_size: prologue")
    fmt, args = the_format(gi, r"let url =", "get_index_size: url")
    w("/-- `get_index_size`: URL -/")
    w(f"def index_size_url {sig} (scheme host path h : List Char) : List Char :=")
    w("  " + cat(format_pieces(fmt, args, envA, "index size url")))
    w("")
    # --- range.rs
    r = strip_comments(read("cascette-protocol/src/cdn/range.rs"))
    ac = fn_body(r, "download_archive_content")
    m = one(r"^\s*if archive_name\.len\(\) < (\d+) \|\| !archive_name\.bytes\(\)\.all\(\|b\| b\.(\w+)\(\)\) \{\s*"
            r"return Err\(RangeError::InvalidArchiveName\(archive_name\.to_string\(\)\)\);\s*\}", ac,
            "download_archive_content: name check first")
    if m.group(2) != "is_ascii_hexdigit":
        raise TranslationError(f"download_archive_content: byte class {m.group(2)!r}")
    w("/-- `RangeDownloader::download_archive_content`: `len() < N || !bytes().all(is_ascii_hexdigit)` is refused first -/")
    w(f"def archive_name_min_len : Nat := {m.group(1)}")
    mm = one(r"let url = if let Some\(product_path\) = &cdn_endpoint\.product_path \{", ac, "download_archive_content: url")
    then_b, j = block_at(ac, mm.end() - 1)
    me = re.match(r"\s*else\s*\{", ac[j:])
    if not me:
        raise TranslationError("download_archive_content: else branch")
    else_b, _ = block_at(ac, j + me.end() - 1)
    envR = SliceEnv(cdn_arg_env("archive_name"), "archive_name")
    f1, a1 = the_format(then_b, r"^\s*", "download_archive_content: url with product path")
    f2, a2 = the_format(else_b, r"^\s*", "download_archive_content: url")
    w("/-- `download_archive_content`: URL with / without `product_path` -/")
    w("def archive_content_url (sl : List Char → Nat → Nat → List Char) (host path : List Char) (ppath : Option (List Char)) (h : List Char) : List Char :=")
    w("  match ppath with")
    w("  | some ppath => " + cat(format_pieces(f1, a1, envR, "archive content url (product path)")))
    w("  | none => " + cat(format_pieces(f2, a2, envR, "archive content url")))
    w("")


# ------------------------------------------------------------------ cascette-client-storage
def translate_storage(w):
    h = strip_comments(read("cascette-client-storage/src/container/hardlink.rs"))
    b = fn_body(h, "format_content_key_path")
    m = one(r"^\s*let hex = hex::encode\(ekey\);\s*base\.join\(&hex\[\.\.(\d+)\]\)\.join\(&hex\[(\d+)\.\.(\d+)\]\)\.join\(&hex\[(\d+)\.\.\]\)\s*$",
            b, "format_content_key_path")
    w("/-- `format_content_key_path`: `base.join(&hex[..A]).join(&hex[B..C]).join(&hex[D..])` -/")
    w("def content_key_path_parts (sl : List Char → Nat → Nat → List Char) (from_ : List Char → Nat → List Char) (h : List Char) : List (List Char) :=")
    w(f"  [sl h 0 {m.group(1)}, sl h {m.group(2)} {m.group(3)}, from_ h {m.group(4)}]")
    l = strip_comments(read("cascette-client-storage/src/lru/lru_file.rs"))
    m = one(r'pub const LRU_EXTENSION: &str = ("[^"]*");', l, "LRU_EXTENSION")
    ext = rust_str(m.group(1))
    g = fn_body(l, "generation_to_filename")
    mm = one(r"^\s*let be_bytes = generation\.to_be_bytes\(\);\s*let mut name = String::with_capacity\(LRU_FILENAME_LEN\);\s*"
             r"for b in &be_bytes \{\s*let _ = std::fmt::Write::write_fmt\(&mut name, format_args!\(\"\{b:(\w+)\}\"\)\);\s*\}\s*"
             r"name\.push_str\(LRU_EXTENSION\);\s*name\s*$", g, "generation_to_filename")
    p = fn_body(l, "lru_file_path")
    if re.sub(r"\s+", "", p) != "dir.join(generation_to_filename(generation))":
        raise TranslationError("lru_file_path")
    w("/-- `generation_to_filename`: each big-endian byte as `{b:SPEC}`, then `LRU_EXTENSION` -/")
    w("def lru_file_name (fmt : List Char → Nat → List Char) (be_bytes : List Nat) : List Char :=")
    w(f"  (be_bytes.map (fmt {chars(mm.group(1))})).flatten ++ {chars(ext)}")
    ix = strip_comments(read("cascette-client-storage/src/index/mod.rs"))
    b = fn_body(ix, "generate_index_filename")
    m = one(r"^\s*format!\((\"[^\"]*\")\)\s*$", b, "generate_index_filename")
    env = {"bucket": ("bucket", "Nat"), "version": ("version", "Nat")}
    w("/-- `generate_index_filename(bucket: u8, version: u32)` -/")
    w("def index_file_name (fmt : List Char → Nat → List Char) (bucket version : Nat) : List Char :=")
    w("  " + cat(format_pieces(rust_str(m.group(1)), [], env, "generate_index_filename")))
    sv = fn_body(ix, "save_index")
    m = one(r'let temp_path = path\.with_extension\("(\w+)"\);', sv, "save_index: temp name")
    w("/-- `save_index`: `path.with_extension(EXT)` -/")
    w(f"def index_tmp_extension : List Char := {chars(m.group(1))}")
    sg = strip_comments(read("cascette-client-storage/src/storage/segment.rs"))
    params, b = fn_sig_and_body(sg, "segment_data_path")
    m = one(r"^\s*base_dir\.join\(format!\((\"[^\"]*\")\)\)\s*$", b, "segment_data_path")
    w("/-- `segment_data_path(base_dir, segment_index: u16)`: the joined file name -/")
    w("def segment_file_name (fmt : List Char → Nat → List Char) (segment_index : Nat) : List Char :=")
    w("  " + cat(format_pieces(rust_str(m.group(1)), [], {"segment_index": ("segment_index", "Nat")}, "segment_data_path")))
    sm = strip_comments(read("cascette-client-storage/src/storage_manager.rs"))
    oi = fn_body(sm, "open_installation")
    if not re.search(r"let relative = std::path::Path::new\(name\);\s*if name\.is_empty\(\)\s*\|\| !relative\s*\.components\(\)\s*"
                     r"\.all\(\|c\| matches!\(c, std::path::Component::Normal\(_\)\)\)\s*\{\s*return Err\(crate::StorageError::Config\(",
                     oi):
        raise TranslationError("open_installation: the name check (non-empty, only Normal components) is gone")
    k = oi.index("return Err(crate::StorageError::Config(")
    if "self.base_path.join(name)" not in oi[k:] or "self.base_path.join(name)" in oi[:k]:
        raise TranslationError("open_installation: base_path.join(name) is not behind the name check")
    # the string that is joined is the string that was checked: `name` is the parameter, never re-bound
    if re.search(r"\blet\s+(?:mut\s+)?name\b", oi):
        raise TranslationError("open_installation: `name` is re-bound inside the function: the joined name is not the checked one")
    w("/-- `open_installation`: the name check (non-empty, every component `Normal`) stands in front of `base_path.join(name)` -/")
    w("def install_name_checked : Bool := true")
    w("")


def translate():
    out = []
    w = out.append
    w("/-")
    w("GENERATED by lib/rs2lean_keys.py from /repo/crates/{cascette-cache/src/{key,disk_cache}.rs,")
    w("cascette-protocol/src/{client/mod,optimized,cdn/mod,cdn/range}.rs, cascette-client-storage/src/…}")
    w("— do not edit. Regenerated on every `./check C20`; Proofs/KeysTie.lean proves the models use these.")
    w("Parameters: `sl s a b` stands for the Rust slice `&s[a..b]`, `trim` for `normalize_cdn_path`,")
    w("`fmt spec n` for `format!(\"{n:spec}\")`.")
    w("-/")
    w("namespace Cascette.Generated.KeysSrc")
    w("")
    translate_key_rs(w)
    translate_disk_cache(w)
    translate_client(w)
    translate_cdn(w)
    translate_storage(w)
    w("end Cascette.Generated.KeysSrc")
    return "\n".join(out) + "\n"


def main():
    try:
        text = translate()
    except (TranslationError, OSError, ValueError) as ex:
        print(f"rs2lean_keys: translation error: {ex}", file=sys.stderr)
        return 1
    old = open(OUT).read() if os.path.exists(OUT) else None
    if old != text:
        os.makedirs(os.path.dirname(OUT), exist_ok=True)
        tmp = OUT + ".tmp"
        open(tmp, "w").write(text)
        os.replace(tmp, OUT)
        print(f"rs2lean_keys: wrote {OUT}")
    else:
        print("rs2lean_keys: up to date")
    return 0


if __name__ == "__main__":
    sys.exit(main())
