"""Manifest-level constants. Per-property wording lives in lib/cfg/Cxx.py (TEXT)."""
from props import TEXT  # noqa: F401
HOOK_COMMITS = ["2ecfd70", "eac145e", "8d88dc1"]
NOT_YET = {}
