"""Per-property manifest wording (kept apart from the run-time config)."""
HOOK_COMMITS = []
NOT_YET = {}
TEXT = {
    "C09": {
        "text": "Lean 4 theorems: the model of the Rust Salsa20 (in-place indexed quarter rounds, 32-bit counter with carry, lazy 64-byte buffer) equals DJB's Salsa20/20 with the CASC nonce rule for every key, IV, block index and message length (the counter carry is covered by the proof, no run can reach it); decrypt∘encrypt = id; piecewise = whole for every split; the 12-arm lookup3 tail and block loop equal lookup3.c hashlittle/hashlittle2 for every seed and every length < 2^32; ARC4 round-trip/piecewise/key-length. The models are tied to the code by a differential run over every length 0..=200 (thorough 0..=1024), every split point, bad IV/key lengths; a disagreement on these lines is reported as a violation with the request as replay because the Lean side is the published algorithm. SIMD helpers and MD5 keys: accelerated == scalar == std for every buffer length 0..=200 on every CPU feature subset of the host (run only).",
        "design_ref": "DESIGN.md §6 C09, Appendix A.6",
        "note": "Trusted: Lean kernel; transcriptions Spec/Salsa20, Spec/Lookup3 (checked against published vectors); hand-written models tied by differential run only; SIMD intrinsics, md-5 crate and memory safety not modelled.",
        "technique": "Lean 4 proof (model = published spec, induction over message / block count) + differential correspondence run + known-answer oracle",
    },
}
