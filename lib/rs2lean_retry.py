#!/usr/bin/env python3
"""
rs2lean_retry — reads the CURRENT Rust source of the retry machinery
  crates/cascette-protocol/src/retry.rs      RetryPolicy (struct, Default, from_env, execute)
  crates/cascette-protocol/src/error.rs      ProtocolError (enum, should_retry, retry_after_hint)
  crates/cascette-protocol/src/cdn/mod.rs    parse_retry_after, CdnClient::download_with_retry
and writes what it finds as Lean definitions to lean/Cascette/Generated/RetrySrc.lean.
Run by `./check C14` on every run (before `lake build`); Proofs/RetryTie.lean proves that the
hand-written model (Model/Retry.lean) is exactly what these definitions say. A change of the
decision structure or of a constant in the Rust text changes the generated Lean and breaks a tie
theorem (reported by ./check as a T failure); a fragment that no longer has a shape this
translator understands is a translation error (non-zero exit), never a silent default.

Extracted
  retry.rs   struct field types; Default literals; from_env: variable name, parse target type,
             default and Duration constructor of every field (and the `.ok().and_then(|s|
             s.parse().ok()).unwrap_or(..)` pipeline itself);
             execute: initial `attempt`, initial `backoff` expression, the arms of
             `match f().await` in order, the guard expression of the stopping arm
             (`!e.should_retry() || attempt >= self.max_attempts`), the statements of the retry arm
             in order (attempt += 1; delay = hint or backoff; jitter block; sleep(delay); backoff
             update), which branch of the `if let Some(..) = e.retry_after_hint()` yields what,
             the jitter range `0.0..0.3`, the jitter_ms expression, `saturating_add`, the f64
             expression of the backoff update with the order of its `.min(..)`/`.max(..)` clamps,
             `try_from_secs_f64(..).map_or(max_backoff, |d| d.min(max_backoff))`
  error.rs   the variants of ProtocolError in order; the native `should_retry` match (arms that
             are `true`, the reqwest predicates or-ed for `Http`, the status list for
             `HttpStatus`, the default arm); the `retry_after_hint` match
  cdn/mod.rs the if/else-if chain of the closure in download_with_retry (predicate → outcome),
             the policy it runs under, the integer type and Duration constructor of
             parse_retry_after

Trusted tables (semantics of library names, not read from /repo): http::StatusCode constants and
its is_success()/is_server_error()/… ranges; Duration::from_millis/from_secs units.
"""
import os, re, sys

REPO = os.environ.get("VERIF_REPO", "/repo")
OUT = os.path.join(os.path.dirname(os.path.dirname(os.path.abspath(__file__))),
                   "lean/Cascette/Generated/RetrySrc.lean")
PROTO = os.path.join(REPO, "crates/cascette-protocol/src")

STATUS = {
    "OK": 200, "NO_CONTENT": 204, "PARTIAL_CONTENT": 206, "MOVED_PERMANENTLY": 301, "FOUND": 302,
    "NOT_MODIFIED": 304, "BAD_REQUEST": 400, "UNAUTHORIZED": 401, "FORBIDDEN": 403, "NOT_FOUND": 404,
    "REQUEST_TIMEOUT": 408, "GONE": 410, "RANGE_NOT_SATISFIABLE": 416, "TOO_MANY_REQUESTS": 429,
    "INTERNAL_SERVER_ERROR": 500, "NOT_IMPLEMENTED": 501, "BAD_GATEWAY": 502,
    "SERVICE_UNAVAILABLE": 503, "GATEWAY_TIMEOUT": 504, "HTTP_VERSION_NOT_SUPPORTED": 505,
}
STATUS_PRED = {
    "is_informational": (100, 200), "is_success": (200, 300), "is_redirection": (300, 400),
    "is_client_error": (400, 500), "is_server_error": (500, 600),
}
DUR_CTOR_NS = {"from_nanos": 1, "from_micros": 1000, "from_millis": 1000000, "from_secs": 1000000000}
INT_BITS = {"u8": 8, "u16": 16, "u32": 32, "u64": 64, "usize": 64}


class TranslationError(Exception):
    pass


# ---------------------------------------------------------------- text helpers
def strip_comments(src):
    src = re.sub(r"/\*.*?\*/", " ", src, flags=re.S)
    return re.sub(r"//[^\n]*", "", src)


def block_at(src, i):
    """src[i] == '{' -> (text inside, index after the closing brace)"""
    assert src[i] == "{"
    depth, j = 0, i
    while j < len(src):
        if src[j] == "{":
            depth += 1
        elif src[j] == "}":
            depth -= 1
            if depth == 0:
                return src[i + 1:j], j + 1
        j += 1
    raise TranslationError("unbalanced braces")


def fn_body(src, name, nth=0):
    ms = list(re.finditer(r"\bfn\s+" + re.escape(name) + r"\b", src))
    if len(ms) <= nth:
        raise TranslationError(f"function {name} (occurrence {nth}) not found")
    m = ms[nth]
    return block_at(src, src.index("{", m.end()))[0], m.start()


def one(pattern, text, what):
    ms = re.findall(pattern, text, re.S)
    if len(ms) != 1:
        raise TranslationError(f"{what}: expected exactly one match of /{pattern}/, found {len(ms)}")
    return ms[0]


def ws(s):
    return re.sub(r"\s+", " ", s).strip()


# ---------------------------------------------------------------- expression lexer / parser
TOKEN = re.compile(r"""
    (?P<ws>\s+)
  | (?P<flt>[0-9][0-9_]*\.[0-9][0-9_]*(?:_?f(?:32|64))?)
  | (?P<num>0x[0-9a-fA-F_]+(?:_?[ui](?:8|16|32|64|128|size))?|[0-9][0-9_]*(?:_?[ui](?:8|16|32|64|128|size))?)
  | (?P<id>[A-Za-z_][A-Za-z0-9_]*)
  | (?P<op>::|\.\.=|\.\.|==|!=|<=|>=|&&|\|\||\+=|[-+*/%!<>=.,;:()\[\]{}|&?])
""", re.X)


def lex(src):
    toks, i = [], 0
    while i < len(src):
        m = TOKEN.match(src, i)
        if not m:
            raise TranslationError(f"cannot lex at: {src[i:i + 40]!r}")
        i = m.end()
        if m.lastgroup != "ws":
            toks.append((m.lastgroup, m.group(m.lastgroup)))
    return toks


class Parser:
    """Rust expression -> AST tuples:
    ('num', n) ('flt', num, den) ('var', name) ('field', obj, name) ('path', [segs])
    ('call', fn_ast, [args]) ('mcall', recv, name, [args]) ('un', op, e) ('bin', op, a, b)
    ('as', e, ty) ('closure', param, body) ('range', lo, hi, inclusive)"""

    def __init__(self, src):
        self.t, self.i = lex(src), 0

    def peek(self, k=0):
        return self.t[self.i + k] if self.i + k < len(self.t) else ("eof", "")

    def eat(self, val=None):
        tok = self.peek()
        if val is not None and tok[1] != val:
            raise TranslationError(f"expected {val!r}, found {tok[1]!r}")
        self.i += 1
        return tok

    def done(self):
        return self.i >= len(self.t)

    def expr(self):
        return self.range_()

    def range_(self):
        a = self.or_()
        if self.peek()[1] in ("..", "..="):
            incl = self.eat()[1] == "..="
            b = self.or_()
            return ("range", a, b, incl)
        return a

    def or_(self):
        a = self.and_()
        while self.peek()[1] == "||":
            self.eat()
            a = ("bin", "||", a, self.and_())
        return a

    def and_(self):
        a = self.cmp()
        while self.peek()[1] == "&&":
            self.eat()
            a = ("bin", "&&", a, self.cmp())
        return a

    def cmp(self):
        a = self.add()
        if self.peek()[1] in (">=", ">", "<=", "<", "==", "!="):
            op = self.eat()[1]
            a = ("bin", op, a, self.add())
        return a

    def add(self):
        a = self.mul()
        while self.peek()[1] in ("+", "-"):
            op = self.eat()[1]
            a = ("bin", op, a, self.mul())
        return a

    def mul(self):
        a = self.cast()
        while self.peek()[1] in ("*", "/", "%"):
            op = self.eat()[1]
            a = ("bin", op, a, self.cast())
        return a

    def cast(self):
        a = self.unary()
        while self.peek() == ("id", "as"):
            self.eat()
            a = ("as", a, self.eat()[1])
        return a

    def unary(self):
        if self.peek()[1] in ("!", "-"):
            op = self.eat()[1]
            return ("un", op, self.unary())
        if self.peek()[1] == "*":     # deref
            self.eat()
            return self.unary()
        return self.postfix()

    def args(self):
        self.eat("(")
        out = []
        while self.peek()[1] != ")":
            out.append(self.expr())
            if self.peek()[1] == ",":
                self.eat()
        self.eat(")")
        return out

    def postfix(self):
        a = self.primary()
        while True:
            t = self.peek()[1]
            if t == ".":
                self.eat()
                name = self.eat()[1]
                if name == "await":
                    a = ("await", a)
                elif self.peek()[1] == "(":
                    a = ("mcall", a, name, self.args())
                else:
                    a = ("field", a, name)
            elif t == "(":
                a = ("call", a, self.args())
            else:
                return a

    def primary(self):
        k, v = self.peek()
        if k == "flt":
            self.eat()
            v = re.sub(r"_?f(32|64)$", "", v).replace("_", "")
            ip, fp = v.split(".")
            return ("flt", int(ip + fp), 10 ** len(fp))
        if k == "num":
            self.eat()
            v = re.sub(r"_?[ui](8|16|32|64|128|size)$", "", v).replace("_", "")
            return ("num", int(v, 0))
        if v == "(":
            self.eat()
            e = self.expr()
            self.eat(")")
            return e
        if v == "|":
            self.eat()
            p = self.eat()[1]
            self.eat("|")
            return ("closure", p, self.expr())
        if k == "id":
            segs = [self.eat()[1]]
            while self.peek()[1] == "::":
                self.eat()
                segs.append(self.eat()[1])
            if len(segs) == 1:
                return ("var", segs[0])
            return ("path", segs)
        raise TranslationError(f"unexpected token {v!r}")


def parse_expr(src):
    p = Parser(src)
    e = p.expr()
    if not p.done():
        raise TranslationError(f"trailing tokens after expression in {src!r}: {p.t[p.i:]}")
    return e


# ---------------------------------------------------------------- typed translation to Lean
class Tr:
    """types: 'dur' (ns, Nat) 'f' (ops carrier) 'nat' 'bool' 'optdur'"""

    def __init__(self, fields, env):
        self.fields, self.env = fields, dict(env)

    def go(self, e):
        k = e[0]
        if k == "num":
            return str(e[1]), "nat"
        if k == "flt":
            return f"(ops.lit {e[1]} {e[2]})", "f"
        if k == "var":
            if e[1] not in self.env:
                raise TranslationError(f"unknown variable {e[1]!r}")
            return self.env[e[1]]
        if k == "field":
            if e[1] == ("var", "self") and e[2] in self.fields:
                return e[2], self.fields[e[2]]
            raise TranslationError(f"unknown field access {e!r}")
        if k == "un":
            a, ta = self.go(e[2])
            if e[1] == "!" and ta == "bool":
                return f"(!{a})", "bool"
            raise TranslationError(f"unary {e[1]} on {ta}")
        if k == "bin":
            a, ta = self.go(e[2])
            b, tb = self.go(e[3])
            op = e[1]
            if op in ("||", "&&") and ta == tb == "bool":
                return f"({a} {op} {b})", "bool"
            if op in (">=", ">", "<=", "<", "==", "!=") and ta == tb and ta in ("nat", "dur"):
                lop = {">=": "≥", ">": ">", "<=": "≤", "<": "<", "==": "=", "!=": "≠"}[op]
                return f"decide ({a} {lop} {b})", "bool"
            if op == "*" and ta == tb == "f":
                return f"(ops.mul {a} {b})", "f"
            if op in ("+", "-") and ta == tb == "dur":
                raise TranslationError(f"`Duration {op} Duration` panics on overflow: no total translation")
            raise TranslationError(f"binary {op} on {ta}, {tb}")
        if k == "as":
            a, ta = self.go(e[1])
            if e[2] == "f64" and ta == "nat":
                return f"(ops.ofNat {a})", "f"
            if e[2] == "u64" and ta == "f":
                return f"(ops.toU64 {a})", "nat"
            raise TranslationError(f"cast {ta} as {e[2]}")
        if k == "call":
            f = e[1]
            if f[0] == "path" and f[1][0] == "Duration" and len(f[1]) == 2 and len(e[2]) == 1:
                a, ta = self.go(e[2][0])
                name = f[1][1]
                if name in DUR_CTOR_NS and ta == "nat":
                    return f"({a} * {DUR_CTOR_NS[name]})", "dur"
                if name == "try_from_secs_f64" and ta == "f":
                    return f"(ops.tryFromSecsF64 {a})", "optdur"
                if name == "from_secs_f64":
                    raise TranslationError("Duration::from_secs_f64 panics on negative/NaN/too large values: no total translation")
            raise TranslationError(f"call not understood: {e!r}")
        if k == "mcall":
            r, tr_ = self.go(e[1])
            name, args = e[2], e[3]
            if tr_ == "dur":
                if name in ("min", "max") and len(args) == 1:
                    b, tb = self.go(args[0])
                    if tb == "dur":
                        return f"({name} {r} {b})", "dur"
                if name == "as_secs_f64" and not args:
                    return f"(ops.asSecsF64 {r})", "f"
                if name == "as_millis" and not args:
                    return f"({r} / 1000000)", "nat"
                if name == "as_secs" and not args:
                    return f"({r} / 1000000000)", "nat"
                if name == "saturating_add" and len(args) == 1:
                    b, tb = self.go(args[0])
                    if tb == "dur":
                        return f"(min ({r} + {b}) durMax)", "dur"
                if name in ("checked_add", "add"):
                    raise TranslationError(f"Duration::{name}: not a total operation here")
            if tr_ == "f" and name in ("min", "max") and len(args) == 1:
                b, tb = self.go(args[0])
                if tb == "f":
                    return f"(ops.f{name} {r} {b})", "f"
            if tr_ == "optdur" and name == "map_or" and len(args) == 2 and args[1][0] == "closure":
                d, td = self.go(args[0])
                sub = Tr(self.fields, self.env)
                sub.env[args[1][1]] = (args[1][1], "dur")
                body, tb = sub.go(args[1][2])
                if td == "dur" and tb == "dur":
                    return f"(match {r} with | none => {d} | some {args[1][1]} => {body})", "dur"
            if tr_ == "optdur" and name in ("unwrap", "expect"):
                raise TranslationError(f"`.{name}()` on a Result/Option panics: no total translation")
            raise TranslationError(f"method .{name}() on {tr_} not understood")
        raise TranslationError(f"expression not understood: {e!r}")


# ---------------------------------------------------------------- statements of the retry arm
def split_statements(body):
    """top-level statements of a block (text), split at `;` / after a `}` that ends an `if` block"""
    out, depth, cur, i = [], 0, "", 0
    while i < len(body):
        c = body[i]
        cur += c
        if c in "({[":
            depth += 1
        elif c in ")}]":
            depth -= 1
            if c == "}" and depth == 0 and re.match(r"\s*if\b(?!\s+let\b.*=\s*if)", cur) and not re.match(r"\s*(else|;)", body[i + 1:]):
                out.append(cur.strip())
                cur = ""
        elif c == ";" and depth == 0:
            out.append(cur.strip())
            cur = ""
        i += 1
    if cur.strip():
        out.append(cur.strip())
    return [s for s in out if s]


def drop_noise(stmts):
    """tracing macros and attributes carry no behaviour"""
    out = []
    for s in stmts:
        s = re.sub(r"#\[[^\]]*\]\s*", "", s).strip()
        if re.match(r"tracing::\w+!\(", s):
            continue
        out.append(s)
    return out


# ---------------------------------------------------------------- retry.rs
def translate_retry(w):
    src = strip_comments(open(os.path.join(PROTO, "retry.rs")).read())
    src = src.split("#[cfg(test)]")[0]

    # struct
    sbody = one(r"pub struct RetryPolicy \{(.*?)\n\}", src, "struct RetryPolicy")
    ftypes = dict(re.findall(r"pub (\w+): ([\w:]+),", sbody))
    want = ["max_attempts", "initial_backoff", "max_backoff", "multiplier", "jitter"]
    if list(ftypes) != want:
        raise TranslationError(f"RetryPolicy fields changed: {list(ftypes)}")
    w("/-! ## retry.rs — `struct RetryPolicy`, `impl Default` -/")
    w("/-- field types of `RetryPolicy`, in declaration order -/")
    w("def policy_fields : List (String × String) := [" + ", ".join(f'("{k}", "{v}")' for k, v in ftypes.items()) + "]")
    lty = {}
    for k, v in ftypes.items():
        lty[k] = {"Duration": "dur", "f64": "f", "bool": "bool"}.get(v, "nat" if v in INT_BITS else None)
        if lty[k] is None:
            raise TranslationError(f"field {k}: type {v} not understood")

    # Default
    dm = re.search(r"impl Default for RetryPolicy \{", src)
    if not dm:
        raise TranslationError("impl Default for RetryPolicy not found")
    dbody, _ = block_at(src, src.index("{", dm.start()))
    selfb = one(r"Self \{(.*?)\}", dbody, "Default: Self { .. }")
    dvals = dict((k, ws(v)) for k, v in re.findall(r"(\w+): ([^,]+),", selfb))
    if list(dvals) != want:
        raise TranslationError(f"Default fields: {list(dvals)}")

    def const_of(field, text):
        """literal of the field's type -> Lean text"""
        t = ftypes[field]
        if t == "Duration":
            m = re.fullmatch(r"Duration::(\w+)\(([0-9_]+)\)", text)
            if not m or m.group(1) not in DUR_CTOR_NS:
                raise TranslationError(f"{field}: Duration literal {text!r}")
            return f"{int(m.group(2).replace('_', ''))} * {DUR_CTOR_NS[m.group(1)]}"
        if t == "f64":
            e = parse_expr(text)
            if e[0] != "flt":
                raise TranslationError(f"{field}: f64 literal {text!r}")
            return f"({e[1]}, {e[2]})"
        if t == "bool":
            if text not in ("true", "false"):
                raise TranslationError(f"{field}: bool literal {text!r}")
            return text
        if t in INT_BITS:
            return str(int(text.replace("_", "")))
        raise TranslationError(f"{field}: type {t}")

    w("/-- `RetryPolicy::default()` (durations in ns; the f64 as decimal `(num, den)`) -/")
    w(f"def default_max_attempts : Nat := {const_of('max_attempts', dvals['max_attempts'])}")
    w(f"def default_initial_backoff : Nat := {const_of('initial_backoff', dvals['initial_backoff'])}")
    w(f"def default_max_backoff : Nat := {const_of('max_backoff', dvals['max_backoff'])}")
    w(f"def default_multiplier : Nat × Nat := {const_of('multiplier', dvals['multiplier'])}")
    w(f"def default_jitter : Bool := {const_of('jitter', dvals['jitter'])}")
    w("")

    # from_env (native)
    ebody, _ = fn_body(src, "from_env", 0)
    if "std::env::var" not in ebody:
        raise TranslationError("first from_env is not the native one")
    selfb = one(r"Ok\(Self \{(.*)\}\)", ebody, "from_env: Ok(Self { .. })")
    w("/-! ## retry.rs — `RetryPolicy::from_env` (native) -/")
    pipe = (r'std::env::var\("(\w+)"\)\s*\.ok\(\)\s*\.and_then\(\|s\| s\.parse\(\)\.ok\(\)\)\s*'
            r'\.unwrap_or\(([^()]+)\)')
    names = []
    pos = 0
    for field in want:
        m = re.compile(r"\b" + field + r":\s*(Duration::(\w+)\(\s*)?" + pipe + r"(?(1)\s*,?\s*\))\s*,").search(selfb, pos)
        if not m:
            raise TranslationError(f"from_env: field {field}: pipeline `env::var(..).ok().and_then(|s| s.parse().ok()).unwrap_or(..)` not found in order")
        pos = m.end()
        ctor, var, dflt = m.group(2), m.group(3), ws(m.group(4))
        names.append(var)
        t = ftypes[field]
        if (t == "Duration") != (ctor is not None):
            raise TranslationError(f"from_env: field {field}: constructor/type mismatch")
        if t == "Duration":
            if ctor not in DUR_CTOR_NS:
                raise TranslationError(f"from_env: Duration::{ctor}")
            # Duration::from_millis / from_secs take u64: that is the type `parse()` infers
            w(f"/-- `{field}`: `{var}` parsed as u64, `Duration::{ctor}`, default {dflt} -/")
            w(f"def env_{field}_bits : Nat := 64")
            w(f"def env_{field}_unit_ns : Nat := {DUR_CTOR_NS[ctor]}")
            w(f"def env_{field}_default : Nat := {int(dflt.replace('_', ''))}")
        elif t in INT_BITS:
            w(f"/-- `{field}`: `{var}` parsed as {t}, default {dflt} -/")
            w(f"def env_{field}_bits : Nat := {INT_BITS[t]}")
            w(f"def env_{field}_default : Nat := {int(dflt.replace('_', ''))}")
        elif t == "f64":
            e = parse_expr(dflt)
            if e[0] != "flt":
                raise TranslationError(f"from_env: {field} default {dflt!r}")
            w(f"/-- `{field}`: `{var}` parsed as f64, default {dflt} -/")
            w(f"def env_{field}_default : Nat × Nat := ({e[1]}, {e[2]})")
        elif t == "bool":
            if dflt not in ("true", "false"):
                raise TranslationError(f"from_env: {field} default {dflt!r}")
            w(f"/-- `{field}`: `{var}` parsed as bool, default {dflt} -/")
            w(f"def env_{field}_default : Bool := {dflt}")
    rest = selfb[pos:].strip()
    if rest:
        raise TranslationError(f"from_env: unexpected extra text {rest[:60]!r}")
    w("/-- the environment variables, in field order -/")
    w("def env_vars : List String := [" + ", ".join(f'"{n}"' for n in names) + "]")
    w("")

    # execute
    xbody, _ = fn_body(src, "execute", 0)
    stm = drop_noise(split_statements(xbody))
    if len(stm) != 3:
        raise TranslationError(f"execute: expected `let mut attempt`, `let mut backoff`, `loop`; got {len(stm)} statements")
    m = re.fullmatch(r"let mut attempt = ([0-9_]+);", stm[0])
    if not m:
        raise TranslationError(f"execute: {stm[0]!r}")
    w("/-! ## retry.rs — `RetryPolicy::execute` -/")
    w("/-- `let mut attempt = …;` -/")
    w(f"def attempt_init : Nat := {int(m.group(1))}")
    m = re.fullmatch(r"let mut backoff = (.*);", stm[1], re.S)
    if not m:
        raise TranslationError(f"execute: {stm[1]!r}")
    fields = {k: (k, v) for k, v in lty.items()}
    fenv = {k: v for k, v in lty.items()}
    tr = Tr(fenv, {})
    e, t = tr.go(parse_expr(m.group(1)))
    if t != "dur":
        raise TranslationError("initial backoff is not a Duration")
    w(f"/-- `let mut backoff = {ws(m.group(1))};` -/")
    w(f"def first_backoff (initial_backoff max_backoff : Nat) : Nat := {e}")
    m = re.fullmatch(r"loop \{\s*match f\(\)\.await \{(.*)\}\s*\}", stm[2], re.S)
    if not m:
        raise TranslationError("execute: `loop { match f().await { … } }` not found")
    arms_src = m.group(1)
    # split arms at top level
    arms, depth, cur, i = [], 0, "", 0
    while i < len(arms_src):
        c = arms_src[i]
        cur += c
        if c in "({[":
            depth += 1
        elif c in ")}]":
            depth -= 1
            if c == "}" and depth == 0 and "=>" in cur:
                arms.append(cur.strip().rstrip(","))
                cur = ""
                # optional comma
                j = i + 1
                while j < len(arms_src) and arms_src[j] in " \n\t":
                    j += 1
                if j < len(arms_src) and arms_src[j] == ",":
                    i = j
        elif c == "," and depth == 0 and "=>" in cur:
            arms.append(cur.strip().rstrip(","))
            cur = ""
        i += 1
    if cur.strip():
        arms.append(cur.strip())
    kinds, guard, retry_block = [], None, None
    for a in arms:
        pat, body = a.split("=>", 1)
        pat, body = ws(pat), body.strip()
        if re.fullmatch(r"Ok\((\w+)\)", pat):
            v = re.fullmatch(r"Ok\((\w+)\)", pat).group(1)
            if ws(body) != f"return Ok({v})":
                raise TranslationError(f"execute: Ok arm does {body!r}")
            kinds.append("ok_return")
        elif re.fullmatch(r"Err\(e\) if (.*)", pat):
            if guard is not None:
                raise TranslationError("execute: two guarded Err arms")
            guard = re.fullmatch(r"Err\(e\) if (.*)", pat).group(1)
            if ws(body) not in ("{ return Err(e); }", "return Err(e)"):
                raise TranslationError(f"execute: guarded Err arm does {body!r}")
            kinds.append("err_guard_return")
        elif pat == "Err(e)":
            if retry_block is not None or not body.startswith("{"):
                raise TranslationError("execute: retry arm")
            retry_block = block_at(body, 0)[0]
            kinds.append("err_retry")
        else:
            raise TranslationError(f"execute: arm pattern {pat!r} not understood")
    if guard is None or retry_block is None:
        raise TranslationError("execute: stopping arm or retry arm missing")
    w("/-- the arms of `match f().await`, in source order -/")
    w("def arms : List Arm := [" + ", ".join("." + k for k in kinds) + "]")
    g = Tr(fenv, {"attempt": ("attempt", "nat")})
    gast = parse_expr(guard)

    def subst_e(ast):
        # e.should_retry() -> variable should_retry
        if ast[0] == "mcall" and ast[1] == ("var", "e") and ast[2] == "should_retry" and not ast[3]:
            return ("var", "should_retry")
        return tuple(subst_e(x) if isinstance(x, tuple) else x for x in ast)

    g.env["should_retry"] = ("should_retry", "bool")
    ge, gt = g.go(subst_e(gast))
    if gt != "bool":
        raise TranslationError("guard is not boolean")
    w(f"/-- guard of the stopping arm: `Err(e) if {ws(guard)}` -/")
    w(f"def stop_guard (should_retry : Bool) (attempt max_attempts : Nat) : Bool := {ge}")

    # retry arm statements
    rs = drop_noise(split_statements(retry_block))
    order = []
    i = 0
    seen = set()
    while i < len(rs):
        s = rs[i]
        m = re.fullmatch(r"attempt \+= ([0-9_]+);", s)
        if m:
            order.append(f".inc_attempt {int(m.group(1))}")
            i += 1
            continue
        m = re.fullmatch(r"let mut delay = if let Some\((\w+)\) = e\.retry_after_hint\(\) \{(.*?)\} else \{(.*?)\};", s, re.S)
        if m and "set_delay" not in seen:
            seen.add("set_delay")
            v = m.group(1)
            then_s = drop_noise(split_statements(m.group(2)))
            else_s = drop_noise(split_statements(m.group(3)))
            if len(then_s) != 1 or len(else_s) != 1:
                raise TranslationError(f"delay selection: branches {then_s} / {else_s}")
            t1 = Tr(fenv, {v: (v, "dur"), "backoff": ("backoff", "dur")})
            a, ta = t1.go(parse_expr(then_s[0]))
            b, tb = Tr(fenv, {"backoff": ("backoff", "dur")}).go(parse_expr(else_s[0]))
            if ta != "dur" or tb != "dur":
                raise TranslationError("delay selection: branch types")
            w("/-- `let mut delay = if let Some(..) = e.retry_after_hint() { … } else { … };` -/")
            w(f"def base_delay (hint : Option Nat) (backoff : Nat) : Nat := match hint with | some {v} => {a} | none => {b}")
            order.append(".set_delay")
            i += 1
            continue
        m = re.fullmatch(r"if (.*?) \{(.*)\}", s, re.S)
        if m and "jitter" not in seen:
            seen.add("jitter")
            c, tc = Tr(fenv, {}).go(parse_expr(m.group(1)))
            if tc != "bool":
                raise TranslationError("jitter condition")
            w(f"/-- condition of the jitter block: `if {ws(m.group(1))}` -/")
            w(f"def jitter_cond (jitter : Bool) : Bool := {c}")
            js = drop_noise(split_statements(m.group(2)))
            if len(js) != 3:
                raise TranslationError(f"jitter block: {js}")
            m1 = re.fullmatch(r"let jitter = rng\(\)\.random_range\((.*)\);", js[0])
            if not m1:
                raise TranslationError(f"jitter draw: {js[0]!r}")
            r = parse_expr(m1.group(1))
            if r[0] != "range" or r[1][0] != "flt" or r[2][0] != "flt":
                raise TranslationError(f"jitter range: {m1.group(1)!r}")
            w(f"/-- `rng().random_range({m1.group(1)})`: bounds as decimals `(num, den)`, and whether the upper bound is included -/")
            w(f"def jitter_lo : Nat × Nat := ({r[1][1]}, {r[1][2]})")
            w(f"def jitter_hi : Nat × Nat := ({r[2][1]}, {r[2][2]})")
            w(f"def jitter_hi_inclusive : Bool := {'true' if r[3] else 'false'}")
            m2 = re.fullmatch(r"let jitter_ms = (.*);", js[1], re.S)
            if not m2:
                raise TranslationError(f"jitter_ms: {js[1]!r}")
            a, ta = Tr(fenv, {"delay": ("delay", "dur"), "jitter": ("jitter", "f")}).go(parse_expr(m2.group(1)))
            if ta != "nat":
                raise TranslationError("jitter_ms is not an integer")
            w(f"/-- `let jitter_ms = {ws(m2.group(1))};` -/")
            w(f"def jitter_ms {{F : Type}} (ops : Ops F) (delay : Nat) (jitter : F) : Nat := {a}")
            m3 = re.fullmatch(r"delay = (.*);", js[2], re.S)
            if not m3:
                raise TranslationError(f"jitter add: {js[2]!r}")
            a, ta = Tr(fenv, {"delay": ("delay", "dur"), "jitter_ms": ("jitter_ms", "nat")}).go(parse_expr(m3.group(1)))
            if ta != "dur":
                raise TranslationError("jittered delay is not a Duration")
            w(f"/-- `delay = {ws(m3.group(1))};` -/")
            w(f"def add_jitter (delay jitter_ms : Nat) : Nat := {a}")
            order.append(".jitter_if")
            i += 1
            continue
        if s == "sleep(delay).await;":
            order.append(".sleep_delay")
            i += 1
            continue
        m = re.fullmatch(r"let scaled = (.*);", s, re.S)
        if m and i + 1 < len(rs) and "update" not in seen:
            seen.add("update")
            m2 = re.fullmatch(r"backoff = (.*);", rs[i + 1], re.S)
            if not m2:
                raise TranslationError(f"backoff update: {rs[i + 1]!r}")
            a, ta = Tr(fenv, {"backoff": ("backoff", "dur")}).go(parse_expr(m.group(1)))
            if ta != "f":
                raise TranslationError("scaled is not f64")
            w(f"/-- `let scaled = {ws(m.group(1))};` -/")
            w(f"def scaled {{F : Type}} (ops : Ops F) (backoff max_backoff : Nat) (multiplier : F) : F := {a}")
            b, tb = Tr(fenv, {"backoff": ("backoff", "dur"), "scaled": ("(scaled ops backoff max_backoff multiplier)", "f")}).go(parse_expr(m2.group(1)))
            if tb != "dur":
                raise TranslationError("new backoff is not a Duration")
            w(f"/-- `backoff = {ws(m2.group(1))};` -/")
            w(f"def next_backoff {{F : Type}} (ops : Ops F) (backoff max_backoff : Nat) (multiplier : F) : Nat := {b}")
            order.append(".update_backoff")
            i += 2
            continue
        raise TranslationError(f"execute: statement of the retry arm not understood: {s[:80]!r}")
    for need in ("set_delay", "jitter", "update"):
        if need not in seen:
            raise TranslationError(f"execute: retry arm lacks the {need} statement")
    w("/-- the statements of the retry arm, in source order -/")
    w("def retry_arm : List Stmt := [" + ", ".join(order) + "]")
    w("")


# ---------------------------------------------------------------- error.rs
def translate_error(w):
    src = strip_comments(open(os.path.join(PROTO, "error.rs")).read())
    ebody = one(r"pub enum ProtocolError \{(.*?)\n\}", src, "enum ProtocolError")
    ebody = re.sub(r"#\[[^\]]*\]", "", ebody)
    variants = re.findall(r"\n\s*([A-Z]\w*)\s*(?:\(|\{|,)", "\n" + ebody)
    if len(variants) != len(set(variants)) or not variants:
        raise TranslationError(f"ProtocolError variants: {variants}")
    w("/-! ## error.rs — `ProtocolError` -/")
    w("/-- the variants of `ProtocolError`, payloads dropped -/")
    w("inductive Variant")
    for v in variants:
        w(f"  | {v}")
    w("  deriving DecidableEq, Repr")
    w("def variants : List Variant := [" + ", ".join("." + v for v in variants) + "]")

    # native should_retry = the one preceded by cfg(not(target_arch = "wasm32"))
    ms = list(re.finditer(r"#\[cfg\(([^\]]*)\)\]\s*pub fn should_retry\b", src))
    nat = [m for m in ms if m.group(1).replace(" ", "") == 'not(target_arch="wasm32")']
    if len(nat) != 1:
        raise TranslationError("native should_retry not found")
    body, _ = block_at(src, src.index("{", nat[0].end()))
    mb = one(r"match self \{(.*)\}", body, "should_retry: match self")
    # arms
    pos, true_vs, http_flags, status_list, default = 0, [], None, None, None
    text = mb.strip()
    arm_re = re.compile(r"\s*((?:\|?\s*Self::\w+(?:\([^)]*\)|\s*\{[^}]*\})?\s*)+|_)\s*=>\s*", re.S)
    while pos < len(text):
        m = arm_re.match(text, pos)
        if not m:
            raise TranslationError(f"should_retry: arm not understood at {text[pos:pos + 50]!r}")
        pat = m.group(1)
        pos = m.end()
        if text[pos] == "{":
            val, pos = block_at(text, pos)
        else:
            j = text.index(",", pos)
            val, pos = text[pos:j], j
        while pos < len(text) and text[pos] in ", \n\t":
            pos += 1
        val = ws(val)
        vs = re.findall(r"Self::(\w+)", pat)
        if pat.strip() == "_":
            if val not in ("true", "false"):
                raise TranslationError(f"should_retry: default arm {val!r}")
            default = val
        elif val in ("true", "false"):
            if val == "true":
                true_vs += vs
            else:
                raise TranslationError("should_retry: explicit false arm (only `_ => false` is understood)")
        elif vs == ["Http"]:
            flags = [f.strip() for f in val.split("||")]
            http_flags = []
            for f in flags:
                fm = re.fullmatch(r"e\.(is_\w+)\(\)", f)
                if not fm:
                    raise TranslationError(f"should_retry: Http arm term {f!r}")
                http_flags.append(fm.group(1))
        elif vs == ["HttpStatus"]:
            mm = re.fullmatch(r"matches!\( status, (.*?),? \)", val)
            if not mm:
                raise TranslationError(f"should_retry: HttpStatus arm {val!r}")
            status_list = []
            for c in mm.group(1).split("|"):
                cm = re.fullmatch(r"&?StatusCode::(\w+)", c.strip())
                if not cm or cm.group(1) not in STATUS:
                    raise TranslationError(f"should_retry: status {c!r}")
                status_list.append(STATUS[cm.group(1)])
        else:
            raise TranslationError(f"should_retry: arm {pat!r} => {val!r}")
    if default is None or http_flags is None or status_list is None:
        raise TranslationError("should_retry: missing arm")
    for v in true_vs:
        if v not in variants:
            raise TranslationError(f"should_retry: unknown variant {v}")
    w("/-- the reqwest predicates or-ed in the `Http` arm of `should_retry` -/")
    w("def http_retry_flags : List String := [" + ", ".join(f'"{f}"' for f in http_flags) + "]")
    w("/-- the statuses listed in the `HttpStatus` arm -/")
    w("def http_status_retry : List Nat := [" + ", ".join(map(str, status_list)) + "]")
    w("/-- `ProtocolError::should_retry` (native): `http_any` = the disjunction of `http_retry_flags` on the reqwest error -/")
    w("def should_retry (v : Variant) (http_any : Bool) (status : Nat) : Bool :=")
    w("  match v with")
    if true_vs:
        w("  | " + " | ".join("." + v for v in true_vs) + " => true")
    w("  | .Http => http_any")
    w("  | .HttpStatus => " + " || ".join(f"status == {c}" for c in status_list))
    covered = set(true_vs) | {"Http", "HttpStatus"}
    if covered != set(variants):
        w(f"  | _ => {default}")

    body, _ = fn_body(src, "retry_after_hint")
    mb = ws(one(r"match self \{(.*)\}", body, "retry_after_hint: match self"))
    m = re.fullmatch(r"Self::(\w+) \{ (\w+) \} => \*?(\w+), _ => None,?", mb)
    if not m or m.group(2) != m.group(3):
        raise TranslationError(f"retry_after_hint: {mb!r}")
    w("/-- `ProtocolError::retry_after_hint`: the payload of that one variant, `None` otherwise -/")
    w("def retry_after_hint (v : Variant) (retry_after : Option Nat) : Option Nat :=")
    w(f"  match v with | .{m.group(1)} => retry_after | _ => none")
    w("")


# ---------------------------------------------------------------- cdn/mod.rs
def translate_cdn(w):
    src = strip_comments(open(os.path.join(PROTO, "cdn/mod.rs")).read())
    body, _ = fn_body(src, "parse_retry_after")
    m = re.search(r"\.and_then\(\|s\| s\.parse::<(\w+)>\(\)\.ok\(\)\)\s*\.map\(Duration::(\w+)\)", body)
    if not m or m.group(1) not in INT_BITS or m.group(2) not in DUR_CTOR_NS:
        raise TranslationError("parse_retry_after: `.and_then(|s| s.parse::<uN>().ok()).map(Duration::from_…)` not found")
    if "RETRY_AFTER" not in body:
        raise TranslationError("parse_retry_after: header name")
    w("/-! ## cdn/mod.rs — `parse_retry_after`, `CdnClient::download_with_retry` -/")
    w("/-- `parse_retry_after`: integer type parsed, Duration unit -/")
    w(f"def retry_after_bits : Nat := {INT_BITS[m.group(1)]}")
    w(f"def retry_after_unit_ns : Nat := {DUR_CTOR_NS[m.group(2)]}")
    body, _ = fn_body(src, "download_with_retry")
    m = re.search(r"let retry_policy = RetryPolicy::(\w+)\(\);", body)
    if not m:
        raise TranslationError("download_with_retry: policy")
    w("/-- the policy `download_with_retry` runs under -/")
    w(f'def cdn_policy : String := "{m.group(1)}"')
    m = re.search(r"retry_policy\s*\.execute\(\|\| async \{", body)
    if not m:
        raise TranslationError("download_with_retry: `retry_policy.execute(|| async {` not found")
    clo, _ = block_at(body, body.index("{", m.start()))
    i = clo.index("if response.status()")
    chain = clo[i:]
    conds, outs, pos = [], [], 0
    while True:
        m = re.compile(r"\s*if (.*?) \{", re.S).match(chain, pos)
        if not m:
            raise TranslationError(f"download_with_retry: chain at {chain[pos:pos + 40]!r}")
        blk, pos = block_at(chain, m.end() - 1)
        conds.append(ws(m.group(1)))
        outs.append(ws(blk))
        m2 = re.compile(r"\s*else\s*").match(chain, pos)
        if not m2:
            raise TranslationError("download_with_retry: chain without final else")
        pos = m2.end()
        if chain[pos] == "{":
            blk, pos = block_at(chain, pos)
            outs.append(ws(blk))
            break
    if chain[pos:].strip():
        raise TranslationError(f"download_with_retry: text after the chain: {chain[pos:][:40]!r}")

    def cond(c):
        m = re.fullmatch(r"response\.status\(\)\.(is_\w+)\(\)", c)
        if m and m.group(1) in STATUS_PRED:
            lo, hi = STATUS_PRED[m.group(1)]
            return f"{lo} ≤ status ∧ status < {hi}"
        m = re.fullmatch(r"response\.status\(\) == (?:reqwest::)?StatusCode::(\w+)", c)
        if m and m.group(1) in STATUS:
            return f"status = {STATUS[m.group(1)]}"
        raise TranslationError(f"download_with_retry: condition {c!r}")

    def out(o):
        if re.fullmatch(r"Ok\(response\.bytes\(\)\.await\?\.to_vec\(\)\)", o):
            return ".ok_body"
        if re.fullmatch(r"let retry_after = parse_retry_after\(&response\); Err\(ProtocolError::RateLimited \{ retry_after \}\)", o):
            return ".rate_limited_parsed_hint"
        if re.fullmatch(r"Err\(ProtocolError::RateLimited \{ retry_after: None \}\)", o):
            return ".rate_limited_no_hint"
        m = re.fullmatch(r"Err\(ProtocolError::(ServerError|HttpStatus)\(response\.status\(\)\)\)", o)
        if m:
            return ".server_error" if m.group(1) == "ServerError" else ".http_status"
        raise TranslationError(f"download_with_retry: outcome {o!r}")

    w("/-- what the closure of `download_with_retry` makes of a response -/")
    w("inductive CdnOut | ok_body | rate_limited_parsed_hint | rate_limited_no_hint | server_error | http_status")
    w("  deriving DecidableEq, Repr")
    w("/-- the `if … else if … else` chain on `response.status()` -/")
    w("def cdn_classify (status : Nat) : CdnOut :=")
    for c, o in zip(conds, outs):
        w(f"  if {cond(c)} then {out(o)} else")
    w(f"  {out(outs[-1])}")
    w("")


def translate():
    out = []
    w = out.append
    w("/-")
    w("GENERATED by lib/rs2lean_retry.py from /repo/crates/cascette-protocol/src/{retry.rs,error.rs,cdn/mod.rs}")
    w("— do not edit. Regenerated on every `./check C14`; Proofs/RetryTie.lean proves the model is this.")
    w("-/")
    w("import Cascette.Model.RetryOps")
    w("namespace Cascette.Generated.RetrySrc")
    w("open Cascette.Model.Retry Cascette.Model.RetryOps")
    w("")
    translate_retry(w)
    translate_error(w)
    translate_cdn(w)
    w("end Cascette.Generated.RetrySrc")
    return "\n".join(out) + "\n"


def main():
    try:
        text = translate()
    except (TranslationError, OSError, ValueError, IndexError) as ex:
        print(f"rs2lean_retry: translation error: {ex}", file=sys.stderr)
        return 1
    old = open(OUT).read() if os.path.exists(OUT) else None
    if old != text:
        os.makedirs(os.path.dirname(OUT), exist_ok=True)
        tmp = OUT + ".tmp"
        open(tmp, "w").write(text)
        os.replace(tmp, OUT)
        print(f"rs2lean_retry: wrote {OUT}")
    else:
        print("rs2lean_retry: up to date")
    return 0


if __name__ == "__main__":
    sys.exit(main())
