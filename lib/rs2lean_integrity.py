#!/usr/bin/env python3
"""
rs2lean_integrity — extracts, from the CURRENT Rust source, the byte ranges, compared lengths and
constants that the integrity acceptors of property C07 use, and writes them as Lean definitions to
lean/Cascette/Generated/IntegritySrc.lean.  Run by `./check C07` on every run (before `lake
build`); Proofs/IntegrityTie.lean proves that the hand-written model (Model/Integrity.lean)
computes with exactly these.  A change of one of these ranges / constants / comparison shapes in
the Rust text changes the generated Lean (or makes the extractor fail) and breaks a tie theorem —
a T failure of ./check — even if no generated artifact of the differential run exposes it.

Each fragment is located by a strict pattern inside the function / enum it belongs to; a fragment
that is no longer found in the shape below is a translation error (non-zero exit), never a silent
default.

Extracted:
  lru/lru_file.rs          LRU_HEADER_SIZE, LRU_ENTRY_SIZE, LRU_MAX_VERSION; the zeroed range of
                           deserialize (`check_data[4..20].fill(0)`) and of serialize; the hash field
                           range / length of LruFileHeader::from_bytes; the full-array comparison
                           `computed.0 != header.hash`; version / head / tail byte indexes; entry field
                           ranges; hash check precedes the entry loop
  archive/index.rs         MIN_FOOTER_SIZE; `SeekFrom::End(-13)`, the required size byte (8) and the
                           footer field indexes of ArchiveIndex::parse AND ChunkedArchiveIndex::open
                           (must agree); the field order, padding (20) and kept bytes (8) of
                           calculate_footer_hash; the `min(len, footer_hash_bytes)` slices of is_valid;
                           the constants of validate_format; the validate_file_size expression
  storage/local_header.rs  LOCAL_HEADER_SIZE, CHECKSUM_A_SEED, `[..0x16]`, `[..0x1A]`, `& 3`, the
                           checksum field byte indexes, the `==  && ==` of validate_checksums
  index/update.rs          UPDATE_ENTRY_SIZE, UPDATE_PAGE_SIZE, `entry_bytes[4..23]`, seed 0,
                           `| 0x8000_0000`, UpdateStatus discriminants and from_byte arms, the
                           to_bytes field ranges and location packing constants, `hash_guard == expected`
  mime_parser.rs           CHECKSUM_PREFIX, `rposition`, `len() == 64`, `is_ascii_hexdigit`, the `\\n` /
                           `\\r` handling, `&raw[..checksum_line_start]`, `format!("{computed:x}")`,
                           `computed_hex != expected_checksum`, validate before the MIME parser
  cache/validation.rs      MAX_VALIDATION_SIZE and the `data_size > MAX_VALIDATION_SIZE` comparison of
                           Md5ValidationHooks::should_skip_validation; skip precedes validate_content
  encoding/{index,header,file}.rs
                           IndexEntry field widths, `digest.as_ref() == self.checksum`, the data_size
                           expression, page size = kb * 1024, whole page read + verify before the entry
                           loop in parse_ckey_pages / parse_ekey_pages, the data_size guard
"""
import os, re, sys

REPO = os.environ.get("VERIF_REPO", "/repo")
OUT = os.path.join(os.path.dirname(os.path.dirname(os.path.abspath(__file__))),
                   "lean/Cascette/Generated/IntegritySrc.lean")
CR = os.path.join(REPO, "crates")


class TranslationError(Exception):
    pass


def read(rel):
    return open(os.path.join(CR, rel)).read()


def strip_tests(src):
    """drop the `#[cfg(test)] mod tests { … }` tail so test code can never satisfy a pattern."""
    m = re.search(r"\n#\[cfg\(test\)\]", src)
    return src[:m.start()] if m else src


def body_at(src, start):
    i = src.index("{", start)
    depth, j = 0, i
    while j < len(src):
        if src[j] == "{":
            depth += 1
        elif src[j] == "}":
            depth -= 1
            if depth == 0:
                return src[i + 1:j]
        j += 1
    raise TranslationError("unbalanced braces")


def fn_body(src, name, within=None, nth=0):
    """body of the nth `fn name` (optionally inside the first `impl within {`)."""
    if within is not None:
        m = re.search(r"\bimpl(?:<[^>]*>)?\s+" + re.escape(within).replace(r"\ ", r"\s+") + r"\b[^{]*\{", src)
        if not m:
            raise TranslationError(f"impl {within} not found")
        src = body_at(src, m.start())
    ms = list(re.finditer(r"\bfn\s+" + re.escape(name) + r"\b", src))
    if len(ms) <= nth:
        raise TranslationError(f"function {name} (#{nth}) not found" + (f" in impl {within}" if within else ""))
    # skip the signature: the body starts at the first `{` after the parameter list's closing paren
    k = src.index("(", ms[nth].end())
    depth = 0
    while True:
        if src[k] == "(":
            depth += 1
        elif src[k] == ")":
            depth -= 1
            if depth == 0:
                break
        k += 1
    return body_at(src, k)


def one(pattern, text, what):
    ms = re.findall(pattern, text, re.S)
    if len(ms) != 1:
        raise TranslationError(f"{what}: expected exactly one match of /{pattern}/, found {len(ms)}")
    return ms[0]


def need(pattern, text, what):
    if not re.search(pattern, text, re.S):
        raise TranslationError(f"{what}: /{pattern}/ not found")


def before(pat_a, pat_b, text, what):
    a, b = re.search(pat_a, text, re.S), re.search(pat_b, text, re.S)
    if not a or not b:
        raise TranslationError(f"{what}: pattern not found ({'first' if not a else 'second'})")
    if not a.start() < b.start():
        raise TranslationError(f"{what}: order changed")


def num(s):
    """Rust integer literal / product of literals / byte literal -> int."""
    s = s.strip()
    m = re.fullmatch(r"b'(\\?.)'", s)
    if m:
        return {"\\n": 10, "\\r": 13}.get(m.group(1), ord(m.group(1)[-1]))
    v = 1
    for p in s.split("*"):
        p = re.sub(r"_?(?:u8|u16|u32|u64|usize|i64)$", "", p.strip()).replace("_", "")
        if not re.fullmatch(r"0[xX][0-9a-fA-F]+|[0-9]+", p):
            raise TranslationError(f"not an integer literal: {s!r}")
        v *= int(p, 0)
    return v


N = r"(0[xX][0-9A-Fa-f_]+|[0-9][0-9_]*)"


def idx_list(expr, var, what):
    """`[data[20], data[21], …]` -> [20, 21, …]"""
    xs = re.findall(re.escape(var) + r"\[" + N + r"\]", expr)
    stripped = re.sub(r"\s+", "", expr)
    if stripped.rstrip(",") != ",".join(f"{var}[{x}]" for x in xs):
        raise TranslationError(f"{what}: index list not understood: {expr!r}")
    return [num(x) for x in xs]


def translate():
    out = []
    w = out.append
    w("/-")
    w("GENERATED by lib/rs2lean_integrity.py from the integrity acceptors of /repo/crates (lru_file.rs,")
    w("archive/index.rs, local_header.rs, update.rs, mime_parser.rs, validation.rs, encoding/*.rs)")
    w("— do not edit. Regenerated on every `./check C07`; Proofs/IntegrityTie.lean proves the model uses these.")
    w("-/")
    w("namespace Cascette.Generated.IntegritySrc")
    w("")

    def d(name, val, doc):
        w(f"/-- {doc} -/")
        if isinstance(val, bool):
            w(f"def {name} : Bool := {'true' if val else 'false'}")
        elif isinstance(val, int):
            w(f"def {name} : Nat := {val}")
        elif isinstance(val, tuple):
            w(f"def {name} : Nat × Nat := ({val[0]}, {val[1]})")
        elif isinstance(val, list):
            w(f"def {name} : List Nat := [" + ", ".join(str(x) for x in val) + "]")
        else:
            raise TranslationError(f"cannot emit {name}")

    # ------------------------------------------------------------------ lru_file.rs
    lru = strip_tests(read("cascette-client-storage/src/lru/lru_file.rs"))
    w("/-! ## crates/cascette-client-storage/src/lru/lru_file.rs -/")
    d("lru_header_size", num(one(r"pub const LRU_HEADER_SIZE: usize = " + N + ";", lru, "LRU_HEADER_SIZE")), "`LRU_HEADER_SIZE`")
    d("lru_entry_size", num(one(r"pub const LRU_ENTRY_SIZE: usize = " + N + ";", lru, "LRU_ENTRY_SIZE")), "`LRU_ENTRY_SIZE`")
    d("lru_max_version", num(one(r"pub const LRU_MAX_VERSION: u16 = " + N + ";", lru, "LRU_MAX_VERSION")), "`LRU_MAX_VERSION`")
    vfs = fn_body(lru, "validate_file_size")
    need(r"size >= LRU_HEADER_SIZE && \(size - LRU_HEADER_SIZE\)\.is_multiple_of\(LRU_ENTRY_SIZE\)", vfs, "lru validate_file_size")
    ecs = fn_body(lru, "entry_count_from_file_size")
    need(r"\(size - LRU_HEADER_SIZE\) / LRU_ENTRY_SIZE", ecs, "lru entry_count_from_file_size")
    des = fn_body(lru, "deserialize")
    lo, hi = one(r"check_data\[" + N + r"\.\." + N + r"\]\.fill\(0\);", des, "deserialize: zeroed range")
    d("lru_zeroed", (num(lo), num(hi)), "`check_data[lo..hi].fill(0)` in `deserialize`: the bytes zeroed before hashing")
    need(r"let mut check_data = data\.to_vec\(\);", des, "deserialize: hashes a copy of the WHOLE input")
    need(r"let computed = md5::compute\(&check_data\);", des, "deserialize: md5 over the whole copy")
    need(r"if computed\.0 != header\.hash \{\s*return None;\s*\}", des, "deserialize: full-array comparison, None on mismatch")
    need(r"if !validate_file_size\(data\.len\(\)\) \{\s*return None;\s*\}", des, "deserialize: size guard")
    before(r"validate_file_size", r"LruFileHeader::from_bytes", des, "deserialize: size guard before header")
    before(r"LruFileHeader::from_bytes", r"md5::compute", des, "deserialize: header (version) before hash")
    before(r"computed\.0 != header\.hash", r"LruFileEntry::from_bytes", des, "deserialize: hash check before the entry loop")
    d("lru_check_before_entries", True, "`deserialize`: size guard, then header/version, then the MD5 comparison, then the entry loop (order checked by the extractor)")
    hfb = fn_body(lru, "from_bytes", within="LruFileHeader")
    d("lru_version_bytes", idx_list(one(r"let version = u16::from_le_bytes\(\[(.*?)\]\);", hfb, "header version bytes"), "data", "version"),
      "`u16::from_le_bytes([data[..], data[..]])`: the version bytes")
    need(r"if version > LRU_MAX_VERSION \{\s*return None;\s*\}", hfb, "header: version guard")
    hl = one(r"let mut hash = \[0u8; " + N + r"\];", hfb, "header: hash array length")
    d("lru_hash_len", num(hl), "`let mut hash = [0u8; n]`: length of the stored (and compared) digest")
    lo, hi = one(r"hash\.copy_from_slice\(&data\[" + N + r"\.\." + N + r"\]\);", hfb, "header: hash field range")
    d("lru_hash_field", (num(lo), num(hi)), "`hash.copy_from_slice(&data[lo..hi])`: where the stored digest is read from")
    d("lru_head_bytes", idx_list(one(r"let mru_head = u32::from_le_bytes\(\[(.*?)\]\);", hfb, "mru_head bytes"), "data", "mru_head"), "little-endian bytes of `mru_head`")
    d("lru_tail_bytes", idx_list(one(r"let lru_tail = u32::from_le_bytes\(\[(.*?)\]\);", hfb, "lru_tail bytes"), "data", "lru_tail"), "little-endian bytes of `lru_tail`")
    ser = fn_body(lru, "serialize")
    lo, hi = one(r"header_bytes\[" + N + r"\.\." + N + r"\]\.fill\(0\);", ser, "serialize: zeroed range")
    lo2, hi2 = one(r"data\[" + N + r"\.\." + N + r"\]\.copy_from_slice\(&hash\.0\);", ser, "serialize: hash store range")
    need(r"let hash = md5::compute\(&data\);", ser, "serialize: md5 over the whole buffer")
    d("lru_ser_zeroed", (num(lo), num(hi)), "`header_bytes[lo..hi].fill(0)` in `serialize`")
    d("lru_ser_stored", (num(lo2), num(hi2)), "`data[lo..hi].copy_from_slice(&hash.0)` in `serialize`")
    efb = fn_body(lru, "from_bytes", within="LruFileEntry")
    d("lru_entry_prev_bytes", idx_list(one(r"let prev = u32::from_le_bytes\(\[(.*?)\]\);", efb, "entry prev"), "data", "prev"), "entry: `prev` bytes (LE)")
    d("lru_entry_next_bytes", idx_list(one(r"let next = u32::from_le_bytes\(\[(.*?)\]\);", efb, "entry next"), "data", "next"), "entry: `next` bytes (LE)")
    lo, hi = one(r"ekey\.copy_from_slice\(&data\[" + N + r"\.\." + N + r"\]\);", efb, "entry ekey range")
    d("lru_entry_ekey", (num(lo), num(hi)), "entry: `ekey.copy_from_slice(&data[lo..hi])`")
    d("lru_entry_flags", num(one(r"let flags = data\[" + N + r"\];", efb, "entry flags")), "entry: `flags = data[i]`")
    w("")

    # ------------------------------------------------------------------ archive/index.rs
    aidx = strip_tests(read("cascette-formats/src/archive/index.rs"))
    w("/-! ## crates/cascette-formats/src/archive/index.rs -/")
    d("aidx_min_footer_size", num(one(r"pub const MIN_FOOTER_SIZE: usize = " + N + ";", aidx, "MIN_FOOTER_SIZE")), "`MIN_FOOTER_SIZE`")
    entry = {}
    for label, within, fn in [("parse", "ArchiveIndex", "parse"), ("open", "ChunkedArchiveIndex", "open")]:
        b = fn_body(aidx, fn, within=within)
        e = {}
        e["from_end"] = num(one(r"\.seek\(SeekFrom::End\(-" + N + r"\)\)\?;\s*let mut \w+ = \[0u8; 1\];", b, f"{label}: size byte position"))
        e["required"] = num(one(r"if footer_hash_bytes != " + N + r" \{\s*return Err\(ArchiveError::InvalidFormat", b, f"{label}: required size byte"))
        fs = one(r"let footer_size = (MIN_FOOTER_SIZE|" + N[1:-1] + r") \+ footer_hash_bytes as (?:usize|i64);", b, f"{label}: footer size")
        e["fixed"] = 0 if fs == "MIN_FOOTER_SIZE" else num(fs)
        need(r"\.seek\(SeekFrom::End\(-\(?footer_size(?: as i64\))?\)\)\?;", b, f"{label}: seek to End(-footer_size)")
        e["read"] = num(one(r"let mut footer_data = vec!\[0u8; " + N + r"\];", b, f"{label}: fixed footer bytes read"))
        lo, hi = one(r"arr\.copy_from_slice\(&footer_data\[" + N + r"\.\." + N + r"\]\);", b, f"{label}: toc_hash range")
        e["toc_hash"] = (num(lo), num(hi))
        for f in ["version", "page_size_kb", "offset_bytes", "size_bytes", "ekey_length", "footer_hash_bytes_check"]:
            e[f] = num(one(r"let " + f + r" = footer_data\[" + N + r"\];", b, f"{label}: {f}"))
        e["reserved"] = idx_list(one(r"let reserved = \[(.*?)\];", b, f"{label}: reserved"), "footer_data", "reserved")
        e["element_count"] = idx_list(one(r"let element_count = u32::from_le_bytes\(\[(.*?)\]\);", b, f"{label}: element_count"), "footer_data", "element_count")
        need(r"let mut footer_hash = vec!\[0u8; footer_hash_bytes as usize\];", b, f"{label}: stored hash sized by the End(-13) byte")
        need(r"footer_hash_bytes: footer_hash_bytes_check,", b, f"{label}: struct field from footer byte")
        need(r"if !footer\.is_valid\(\) \{", b, f"{label}: is_valid call")
        before(r"if footer_hash_bytes != ", r"let footer_size", b, f"{label}: size byte checked before it sizes the footer")
        before(r"if !footer\.is_valid\(\)", r"footer\.validate_format\(\)\?;", b, f"{label}: is_valid before validate_format")
        if label == "parse":
            before(r"footer\.validate_format\(\)\?;", r"footer\.validate_file_size\(file_size\)\?;", b, "parse: validate_format before validate_file_size")
            before(r"footer\.validate_file_size\(file_size\)\?;", r"let chunk_count", b, "parse: footer stage before TOC/entries")
        entry[label] = e
    if entry["parse"]["fixed"] == 0:
        entry["parse"]["fixed"] = num(one(r"pub const MIN_FOOTER_SIZE: usize = " + N + ";", aidx, "MIN_FOOTER_SIZE"))
    if entry["parse"] != entry["open"]:
        diff = {k: (entry["parse"][k], entry["open"][k]) for k in entry["parse"] if entry["parse"][k] != entry["open"][k]}
        raise TranslationError(f"ArchiveIndex::parse and ChunkedArchiveIndex::open disagree on the footer stage: {diff}")
    e = entry["parse"]
    d("aidx_size_byte_from_end", e["from_end"], "`SeekFrom::End(-n)`: where the footer-hash size byte is read (parse and open)")
    d("aidx_required_hash_bytes", e["required"], "`if footer_hash_bytes != n { return Err(InvalidFormat) }` (fix 6b0ee35; parse and open)")
    d("aidx_fixed_footer", e["fixed"], "fixed part of the footer: `footer_size = n + footer_hash_bytes`")
    d("aidx_fixed_read", e["read"], "`vec![0u8; n]` read at `End(-footer_size)`")
    d("aidx_toc_hash", e["toc_hash"], "`footer_data[lo..hi]` → `toc_hash` (not covered by the footer hash)")
    fieldpos = {"version": [e["version"]], "reserved": e["reserved"], "page_size_kb": [e["page_size_kb"]],
                "offset_bytes": [e["offset_bytes"]], "size_bytes": [e["size_bytes"]], "ekey_length": [e["ekey_length"]],
                "footer_hash_bytes": [e["footer_hash_bytes_check"]], "element_count": e["element_count"]}
    for k, v in fieldpos.items():
        d("aidx_f_" + k, v, f"footer byte index(es) of `{k}`")
    cfh = fn_body(aidx, "calculate_footer_hash")
    order = []
    for m in re.finditer(r"data\.(push|extend_from_slice)\(&?self\.(\w+)(\.to_le_bytes\(\))?\);", cfh):
        kind, f, le = m.groups()
        if f not in fieldpos:
            raise TranslationError(f"calculate_footer_hash: unknown field {f}")
        if (kind == "push") != (len(fieldpos[f]) == 1) or (le is not None) != (f == "element_count"):
            raise TranslationError(f"calculate_footer_hash: field {f} hashed in an unexpected shape")
        order += fieldpos[f]
    if len(re.findall(r"data\.(?:push|extend_from_slice)\(", cfh)) != 8:
        raise TranslationError("calculate_footer_hash: expected exactly 8 push/extend calls")
    d("aidx_hashed_bytes", order, "`calculate_footer_hash`: the footer byte indexes pushed into the hashed buffer, in order")
    d("aidx_hash_padded_to", num(one(r"data\.resize\(" + N + r", 0\);", cfh, "calculate_footer_hash: padding")), "`data.resize(n, 0)`")
    need(r"ContentKey::from_data\(&data\)", cfh, "calculate_footer_hash: MD5 of the buffer")
    d("aidx_hash_kept", num(one(r"content_key\.as_bytes\(\)\[\.\." + N + r"\]\.to_vec\(\)", cfh, "calculate_footer_hash: kept bytes")), "`content_key.as_bytes()[..n]`")
    isv = fn_body(aidx, "is_valid")
    need(r"let expected = self\.calculate_footer_hash\(\);", isv, "is_valid: expected")
    need(r"let actual_len = self\.footer_hash\.len\(\)\.min\(self\.footer_hash_bytes as usize\);", isv, "is_valid: compared length")
    need(r"self\.footer_hash\[\.\.actual_len\] == expected\[\.\.actual_len\]", isv, "is_valid: comparison")
    d("aidx_is_valid_min_len", True, "`is_valid`: compares `min(footer_hash.len(), footer_hash_bytes)` leading bytes of stored and expected")
    vf = fn_body(aidx, "validate_format")
    d("aidx_max_version", num(one(r"if self\.version > " + N + r" \{", vf, "validate_format: version")), "`if self.version > n` → error")
    need(r"if self\.reserved != \[0, 0\] \{", vf, "validate_format: reserved")
    d("aidx_page_size_kb", num(one(r"if self\.page_size_kb != " + N + r" \{", vf, "validate_format: page size")), "`if self.page_size_kb != n` → error")
    ob = one(r"if !\[([0-9, ]+)\]\.contains\(&self\.offset_bytes\) \{", vf, "validate_format: offset bytes")
    d("aidx_offset_bytes", [num(x) for x in ob.split(",")], "accepted `offset_bytes`")
    d("aidx_size_bytes", num(one(r"if self\.size_bytes != " + N + r" \{", vf, "validate_format: size bytes")), "`if self.size_bytes != n` → error")
    d("aidx_max_ekey_length", num(one(r"if self\.ekey_length == 0 \|\| self\.ekey_length > " + N + r" \{", vf, "validate_format: ekey length")), "`ekey_length == 0 || ekey_length > n` → error")
    d("aidx_footer_hash_bytes", num(one(r"if self\.footer_hash_bytes != " + N + r" \{", vf, "validate_format: footer hash bytes")), "`if self.footer_hash_bytes != n` → error")
    vs = fn_body(aidx, "validate_file_size", within="IndexFooter")
    for pat, what in [
        (r"let page_size = \(self\.page_size_kb as u64\) \* 1024;", "page_size"),
        (r"let record_size =\s*self\.ekey_length as u64 \+ self\.size_bytes as u64 \+ self\.offset_bytes as u64;", "record_size"),
        (r"let records_per_page = page_size / record_size;", "records_per_page"),
        (r"if records_per_page == 0 \{\s*return Err\(ArchiveError::InvalidFormat", "records_per_page == 0"),
        (r"let toc_entries = \(self\.element_count as u64\)\.div_ceil\(records_per_page\);", "toc_entries"),
        (r"let toc_entry_size = self\.ekey_length as u64 \+ self\.footer_hash_bytes as u64;", "toc_entry_size"),
        (r"let footer_size = MIN_FOOTER_SIZE as u64 \+ self\.footer_hash_bytes as u64;", "footer_size"),
        (r"let data_size = toc_entries \* page_size;", "data_size"),
        (r"let toc_size = toc_entries \* toc_entry_size;", "toc_size"),
        (r"let expected = data_size \+ toc_size \+ footer_size;", "expected"),
        (r"if actual_file_size != expected \{\s*return Err\(ArchiveError::FileSizeMismatch", "comparison"),
    ]:
        need(pat, vs, "validate_file_size: " + what)
    w("/-- `IndexFooter::validate_file_size`: the expected size, transliterated (each `let` matched literally) -/")
    w("def aidx_expected_size (page_size_kb ekey_length size_bytes offset_bytes footer_hash_bytes element_count : Nat) : Nat :=")
    w("  let page_size := page_size_kb * 1024")
    w("  let record_size := ekey_length + size_bytes + offset_bytes")
    w("  let records_per_page := page_size / record_size")
    w("  let toc_entries := (element_count + records_per_page - 1) / records_per_page")
    w("  let toc_entry_size := ekey_length + footer_hash_bytes")
    w(f"  let footer_size := {e['fixed']} + footer_hash_bytes")
    w("  toc_entries * page_size + toc_entries * toc_entry_size + footer_size")
    w("")

    # ------------------------------------------------------------------ local_header.rs
    lh = strip_tests(read("cascette-client-storage/src/storage/local_header.rs"))
    w("/-! ## crates/cascette-client-storage/src/storage/local_header.rs -/")
    d("lhdr_size", num(one(r"pub const LOCAL_HEADER_SIZE: usize = " + N + ";", lh, "LOCAL_HEADER_SIZE")), "`LOCAL_HEADER_SIZE`")
    d("lhdr_checksum_a_seed", num(one(r"const CHECKSUM_A_SEED: u32 = " + N + ";", lh, "CHECKSUM_A_SEED")), "`CHECKSUM_A_SEED`")
    ca = fn_body(lh, "compute_checksum_a")
    d("lhdr_a_hashed_end", num(one(r"hashlittle\(&header_bytes\[\.\." + N + r"\], CHECKSUM_A_SEED\)", ca, "compute_checksum_a")), "`hashlittle(&header_bytes[..n], CHECKSUM_A_SEED)`")
    cb = fn_body(lh, "compute_checksum_b")
    d("lhdr_b_xored_end", num(one(r"for \(i, &byte\) in header_bytes\[\.\." + N + r"\]\.iter\(\)\.enumerate\(\) \{", cb, "compute_checksum_b: range")), "`header_bytes[..n].iter().enumerate()`")
    d("lhdr_b_lane_mask", num(one(r"checksum\[\(base_offset \+ i\) & " + N + r"\] \^= byte;", cb, "compute_checksum_b: lane")), "`checksum[(base_offset + i) & m] ^= byte`")
    need(r"let mut checksum = \[0u8; 4\];", cb, "compute_checksum_b: four lanes")
    need(r"u32::from_le_bytes\(checksum\)", cb, "compute_checksum_b: lanes little-endian")
    vc = fn_body(lh, "validate_checksums")
    need(r"let bytes = self\.to_bytes\(\);", vc, "validate_checksums: re-serialises")
    need(r"self\.checksum_a == expected_a && self\.checksum_b == expected_b", vc, "validate_checksums: both compared in full")
    fb = fn_body(lh, "from_bytes", within="LocalHeader")
    d("lhdr_checksum_a_bytes", idx_list(one(r"let checksum_a = u32::from_le_bytes\(\[(.*?)\]\);", fb, "checksum_a bytes"), "data", "checksum_a"), "stored checksum A (LE)")
    d("lhdr_checksum_b_bytes", idx_list(one(r"let checksum_b = u32::from_le_bytes\(\[(.*?)\]\);", fb, "checksum_b bytes"), "data", "checksum_b"), "stored checksum B (LE)")
    lo, hi = one(r"encoding_key\.copy_from_slice\(&data\[" + N + r"\.\." + N + r"\]\);", fb, "encoding key range")
    d("lhdr_key", (num(lo), num(hi)), "`encoding_key.copy_from_slice(&data[lo..hi])`")
    d("lhdr_size_bytes", idx_list(one(r"let size_with_header = u32::from_be_bytes\(\[(.*?)\]\);", fb, "size bytes"), "data", "size"), "`size_with_header` (BE)")
    d("lhdr_flags_bytes", idx_list(one(r"let flags = u16::from_le_bytes\(\[(.*?)\]\);", fb, "flags bytes"), "data", "flags"), "`flags` (LE)")
    sg = strip_tests(read("cascette-client-storage/src/storage/segment.rs"))
    sfb = fn_body(sg, "from_bytes", within="SegmentHeader")
    need(r"if data\.len\(\) < SEGMENT_HEADER_SIZE \{\s*return None;\s*\}", sfb, "SegmentHeader::from_bytes: length guard")
    need(r"LocalHeader::from_bytes\(&data\[offset\.\.offset \+ LOCAL_HEADER_SIZE\]\)", sfb, "SegmentHeader::from_bytes: per-bucket header")
    d("seg_header_size", num(one(r"pub const SEGMENT_HEADER_SIZE: usize = " + N + ";", sg, "SEGMENT_HEADER_SIZE")), "`SEGMENT_HEADER_SIZE`")
    d("seg_bucket_count", num(one(r"pub const BUCKET_COUNT: usize = " + N + ";", sg, "BUCKET_COUNT")), "`BUCKET_COUNT` (headers per segment block)")
    need(r"headers: \[LocalHeader; BUCKET_COUNT\],", sg, "SegmentHeader::headers")
    d("seg_load_validates", "validate_checksums" in sfb,
      "does `SegmentHeader::from_bytes` call `validate_checksums`? (false = finding load-ignores-local-header-checksums)")
    w("")

    # ------------------------------------------------------------------ update.rs
    up = strip_tests(read("cascette-client-storage/src/index/update.rs"))
    w("/-! ## crates/cascette-client-storage/src/index/update.rs -/")
    d("upd_entry_size", num(one(r"pub const UPDATE_ENTRY_SIZE: usize = " + N + ";", up, "UPDATE_ENTRY_SIZE")), "`UPDATE_ENTRY_SIZE`")
    d("upd_page_size", num(one(r"pub const UPDATE_PAGE_SIZE: usize = " + N + ";", up, "UPDATE_PAGE_SIZE")), "`UPDATE_PAGE_SIZE`")
    need(r"pub const ENTRIES_PER_PAGE: usize = UPDATE_PAGE_SIZE / UPDATE_ENTRY_SIZE;", up, "ENTRIES_PER_PAGE")
    chg = fn_body(up, "compute_hash_guard")
    lo, hi, seed, mask = one(r"hashlittle\(&entry_bytes\[" + N + r"\.\." + N + r"\], " + N + r"\) \| " + N + r"\s*$", chg.strip(), "compute_hash_guard")
    d("upd_hashed", (num(lo), num(hi)), "`hashlittle(&entry_bytes[lo..hi], …)`")
    d("upd_seed", num(seed), "the `hashlittle` seed of the guard")
    d("upd_or_mask", num(mask), "`… | mask`")
    vg = fn_body(up, "validate_hash_guard")
    need(r"let bytes = self\.to_bytes\(\);\s*let expected = Self::compute_hash_guard\(&bytes\);\s*self\.hash_guard == expected", vg, "validate_hash_guard")
    enum = one(r"pub enum UpdateStatus \{(.*?)\n\}", up, "enum UpdateStatus")
    disc = {n: num(v) for n, v in re.findall(r"\b(\w+) = " + N + r",", enum)}
    fby = fn_body(up, "from_byte", within="UpdateStatus")
    arms = re.findall(N + r" => Self::(\w+),", fby)
    default = one(r"_ => Self::(\w+),", fby, "UpdateStatus::from_byte default arm")
    for v, n in arms:
        if disc.get(n) != num(v):
            raise TranslationError(f"UpdateStatus::from_byte: arm {v} => {n} but {n} = {disc.get(n)} (`as u8` would not round-trip)")
    if sorted(disc) != sorted([n for _, n in arms] + [default]):
        raise TranslationError("UpdateStatus: from_byte arms do not cover the enum")
    d("upd_status_fixed", [num(v) for v, _ in arms], "`UpdateStatus::from_byte`: the bytes with an arm of their own (each maps to the variant with that discriminant)")
    d("upd_status_default", disc[default], "discriminant of the `_ =>` variant")
    tb = fn_body(up, "to_bytes", within="UpdateEntry")
    lo, hi = one(r"buf\[" + N + r"\.\." + N + r"\]\.copy_from_slice\(&self\.hash_guard\.to_le_bytes\(\)\);", tb, "to_bytes: guard")
    d("upd_guard", (num(lo), num(hi)), "`buf[lo..hi]` ← `hash_guard` (LE)")
    lo, hi = one(r"buf\[" + N + r"\.\." + N + r"\]\.copy_from_slice\(&self\.ekey\);", tb, "to_bytes: ekey")
    d("upd_ekey", (num(lo), num(hi)), "`buf[lo..hi]` ← `ekey`")
    d("upd_index_high", num(one(r"buf\[" + N + r"\] = index_high;", tb, "to_bytes: index_high")), "`buf[i] = index_high`")
    lo, hi = one(r"buf\[" + N + r"\.\." + N + r"\]\.copy_from_slice\(&packed\.to_be_bytes\(\)\);", tb, "to_bytes: packed")
    d("upd_packed", (num(lo), num(hi)), "`buf[lo..hi]` ← `packed` (BE)")
    lo, hi = one(r"buf\[" + N + r"\.\." + N + r"\]\.copy_from_slice\(&self\.encoded_size\.to_le_bytes\(\)\);", tb, "to_bytes: size")
    d("upd_size", (num(lo), num(hi)), "`buf[lo..hi]` ← `encoded_size` (LE)")
    d("upd_status_pos", num(one(r"buf\[" + N + r"\] = self\.status as u8;", tb, "to_bytes: status")), "`buf[i] = self.status as u8`")
    d("upd_pad_pos", num(one(r"buf\[" + N + r"\] = 0;", tb, "to_bytes: padding")), "`buf[i] = 0` (padding)")
    d("upd_id_shift", num(one(r"let index_high = \(self\.archive_location\.archive_id >> " + N + r"\) as u8;", tb, "to_bytes: id shift")), "`archive_id >> n`")
    d("upd_id_low_mask", num(one(r"let archive_low = u32::from\(self\.archive_location\.archive_id & " + N + r"\);", tb, "to_bytes: id mask")), "`archive_id & m`")
    sh, om = one(r"let packed = \(archive_low << " + N + r"\) \| \(self\.archive_location\.archive_offset & " + N + r"\);", tb, "to_bytes: packed")
    d("upd_low_shift", num(sh), "`archive_low << n`")
    d("upd_offset_mask", num(om), "`archive_offset & m`")
    fbe = fn_body(up, "from_bytes", within="UpdateEntry")
    d("upd_r_guard_bytes", idx_list(one(r"let hash_guard = u32::from_le_bytes\(\[(.*?)\]\);", fbe, "from_bytes: guard"), "data", "guard"), "`from_bytes`: guard bytes (LE)")
    lo, hi = one(r"ekey\.copy_from_slice\(&data\[" + N + r"\.\." + N + r"\]\);", fbe, "from_bytes: ekey")
    d("upd_r_ekey", (num(lo), num(hi)), "`from_bytes`: ekey range")
    d("upd_r_index_high", num(one(r"let index_high = u16::from\(data\[" + N + r"\]\);", fbe, "from_bytes: index_high")), "`from_bytes`: index_high byte")
    d("upd_r_packed_bytes", idx_list(one(r"let packed = u32::from_be_bytes\(\[(.*?)\]\);", fbe, "from_bytes: packed"), "data", "packed"), "`from_bytes`: packed bytes (BE)")
    d("upd_r_size_bytes", idx_list(one(r"let encoded_size = u32::from_le_bytes\(\[(.*?)\]\);", fbe, "from_bytes: size"), "data", "size"), "`from_bytes`: size bytes (LE)")
    d("upd_r_status", num(one(r"let status = UpdateStatus::from_byte\(data\[" + N + r"\]\);", fbe, "from_bytes: status")), "`from_bytes`: status byte")
    sh1, sh2 = one(r"let archive_id = \(index_high << " + N + r"\) \| u16::try_from\(packed >> " + N + r"\)\.unwrap_or\(0\);", fbe, "from_bytes: archive_id")
    d("upd_r_id_shift", num(sh1), "`index_high << n`")
    d("upd_r_low_shift", num(sh2), "`packed >> n`")
    d("upd_r_offset_mask", num(one(r"let archive_offset = packed & " + N + r";", fbe, "from_bytes: offset")), "`packed & m`")
    pfb = fn_body(up, "from_bytes", within="UpdatePage")
    if "validate_hash_guard" in pfb or "validate_hash_guard" in fn_body(up, "from_bytes", within="UpdateSection"):
        d("upd_load_validates", True, "the section loader calls `validate_hash_guard`")
    else:
        d("upd_load_validates", False, "`UpdatePage::from_bytes` / `UpdateSection::from_bytes` never call `validate_hash_guard` (finding load-ignores-update-guard)")
    w("")

    # ------------------------------------------------------------------ mime_parser.rs
    mp = strip_tests(read("cascette-protocol/src/mime_parser.rs"))
    w("/-! ## crates/cascette-protocol/src/mime_parser.rs -/")
    ex = fn_body(mp, "extract_checksum")
    pfx = one(r"const CHECKSUM_PREFIX: &\[u8\] = b\"([^\"\\]*)\";", ex, "CHECKSUM_PREFIX")
    d("v1_prefix", [ord(c) for c in pfx], "`CHECKSUM_PREFIX` (bytes of `" + pfx.replace("`", "'") + "`)")
    need(r"\.windows\(CHECKSUM_PREFIX\.len\(\)\)\s*\.rposition\(\|window\| window == CHECKSUM_PREFIX\)", ex, "extract_checksum: LAST occurrence")
    nl = one(r"\.position\(\|&b\| b == (b'\\n')\)\s*\.map_or\(raw\.len\(\), \|pos\| checksum_line_start \+ pos \+ 1\);", ex, "extract_checksum: line end")
    d("v1_line_end", num(nl), "the byte that ends the checksum line (else the end of the input)")
    need(r"let hex_start = checksum_pos \+ CHECKSUM_PREFIX\.len\(\);", ex, "extract_checksum: hex start")
    need(r"let mut hex_end = if checksum_line_end > 0 && raw\[checksum_line_end - 1\] == b'\\n' \{\s*checksum_line_end - 1\s*\} else \{\s*checksum_line_end\s*\};", ex, "extract_checksum: strip LF")
    cr = one(r"if hex_end > 0 && raw\[hex_end - 1\] == (b'\\r') \{\s*hex_end -= 1;\s*\}", ex, "extract_checksum: strip CR")
    d("v1_stripped", num(cr), "one trailing byte of this value is stripped from the line")
    need(r"if hex_start < hex_end \{", ex, "extract_checksum: non-empty text")
    hl = one(r"if checksum\.len\(\) == " + N + r" && checksum\.chars\(\)\.all\(\|c\| c\.is_ascii_hexdigit\(\)\) \{", ex, "extract_checksum: well-formedness")
    d("v1_hex_len", num(hl), "`checksum.len() == n && all is_ascii_hexdigit`")
    need(r"let message_bytes = &raw\[\.\.checksum_line_start\];\s*return \(message_bytes, Some\(checksum\)\);", ex, "extract_checksum: protected region = everything before the line")
    need(r"\(raw, None\)\s*$", ex.rstrip(), "extract_checksum: fall-through = whole input, no checksum")
    vck = fn_body(mp, "validate_checksum")
    need(r"hasher\.update\(message_bytes\);", vck, "validate_checksum: SHA-256 over the message bytes")
    need(r"let computed_hex = format!\(\"\{computed:x\}\"\);", vck, "validate_checksum: lower-case hex rendering")
    need(r"if computed_hex != expected_checksum \{\s*return Err\(", vck, "validate_checksum: full string comparison")
    d("v1_renders_lower_hex", True, "`format!(\"{computed:x}\")` compared with `!=` against the whole checksum text")
    pv = fn_body(mp, "parse_v1_mime_response")
    need(r"if let Some\(ref expected_checksum\) = checksum \{\s*validate_checksum\(message_data, expected_checksum\)\?;\s*\}", pv, "parse_v1_mime_response: validate when present")
    # since fix d1b4b99 the MIME parser is reached through the helper `parse_message(data)` (nesting
    # limit around `MessageParser::default().parse(data)`): the check must precede the only call of
    # the helper, the helper gets the message bytes only, and nothing else in the function parses
    before(r"validate_checksum\(message_data, expected_checksum\)\?;", r"parse_message\(", pv, "parse_v1_mime_response: check before MIME parsing")
    one(r"(parse_message\(message_data\))", pv, "parse_v1_mime_response: MIME parser gets the message bytes only")
    one(r"(\bparse_message\()", pv, "parse_v1_mime_response: one call of the MIME parser")
    if re.search(r"MessageParser|raw_response\s*\)", pv.split("extract_checksum(raw_response)", 1)[-1]):
        raise TranslationError("parse_v1_mime_response: the raw input / a second MIME parser is used after extract_checksum")
    pm = fn_body(mp, "parse_message")
    one(r"(MessageParser::default\(\)\.parse\(data\))", pm, "parse_message: parses exactly the bytes it is given")
    d("v1_check_before_mime", True, "`validate_checksum(…)?` precedes `parse_message(message_data)` (= `MessageParser::default().parse(data)` + nesting limit)")
    w("")

    # ------------------------------------------------------------------ validation.rs
    va = strip_tests(read("cascette-cache/src/validation.rs"))
    w("/-! ## crates/cascette-cache/src/validation.rs -/")
    ssv = fn_body(va, "should_skip_validation", within="ValidationHooks for Md5ValidationHooks")
    mvs = one(r"const MAX_VALIDATION_SIZE: usize = ([0-9_ *]+);", ssv, "MAX_VALIDATION_SIZE")
    need(r"data_size > MAX_VALIDATION_SIZE\s*$", ssv.rstrip(), "should_skip_validation: strict `>`")
    d("max_validation_size", num(mvs), "`MAX_VALIDATION_SIZE` of `Md5ValidationHooks::should_skip_validation` (`data_size > MAX_VALIDATION_SIZE` ⇒ not validated)")
    vc2 = fn_body(va, "validate_content", within="ValidationHooks for Md5ValidationHooks")
    need(r"let computed_hash = md5::compute\(data\);", vc2, "Md5ValidationHooks::validate_content: md5 of all the data")
    need(r"let is_valid = computed_hash\.as_ref\(\) == expected_hash;", vc2, "Md5ValidationHooks::validate_content: full comparison")
    vwh = fn_body(va, "validate_with_hooks")
    before(r"\.should_skip_validation\(content_key, self\.data\.len\(\)\)", r"\.validate_content\(content_key, &self\.data\)", vwh, "validate_with_hooks: skip test before validate_content")
    need(r"return Err\(ngdp_error\);", vwh, "validate_with_hooks: Err on mismatch")
    w("")

    # ------------------------------------------------------------------ encoding
    ei = strip_tests(read("cascette-formats/src/encoding/index.rs"))
    eh = strip_tests(read("cascette-formats/src/encoding/header.rs"))
    ef = strip_tests(read("cascette-formats/src/encoding/file.rs"))
    w("/-! ## crates/cascette-formats/src/encoding/{index,header,file}.rs -/")
    d("enc_index_key_len", num(one(r"pub first_key: \[u8; " + N + r"\],", ei, "IndexEntry::first_key")), "`IndexEntry::first_key: [u8; n]`")
    d("enc_index_sum_len", num(one(r"pub checksum: \[u8; " + N + r"\],", ei, "IndexEntry::checksum")), "`IndexEntry::checksum: [u8; n]` (stored and compared in full)")
    ver = fn_body(ei, "verify")
    need(r"let digest = md5::compute\(page_data\);\s*digest\.as_ref\(\) == self\.checksum", ver, "IndexEntry::verify")
    ds = fn_body(eh, "data_size")
    m = re.fullmatch(r"\s*" + N + r"\s*(?://[^\n]*)?\s*\+ \(self\.ckey_page_count as usize \* \(" + N + r" \+ self\.ckey_page_size\(\)\)\)\s*"
                     r"\+ \(self\.ekey_page_count as usize \* \(" + N + r" \+ self\.ekey_page_size\(\)\)\)\s*\+ self\.espec_block_size as usize\s*", ds)
    if not m:
        raise TranslationError("EncodingHeader::data_size: expression not in the expected shape")
    kb1 = one(r"self\.ckey_page_size_kb as usize \* " + N, fn_body(eh, "ckey_page_size"), "ckey_page_size")
    kb2 = one(r"self\.ekey_page_size_kb as usize \* " + N, fn_body(eh, "ekey_page_size"), "ekey_page_size")
    d("enc_header_size", num(m.group(1)), "the constant term of `data_size` (header bytes)")
    w("/-- `EncodingHeader::data_size`, transliterated -/")
    w("def enc_data_size (ckey_page_count ckey_page_size_kb ekey_page_count ekey_page_size_kb espec_block_size : Nat) : Nat :=")
    w(f"  {num(m.group(1))} + (ckey_page_count * ({num(m.group(2))} + ckey_page_size_kb * {num(kb1)}))"
      f" + (ekey_page_count * ({num(m.group(3))} + ekey_page_size_kb * {num(kb2)})) + espec_block_size")
    pr = fn_body(ef, "parse", within="EncodingFile")
    need(r"if header\.data_size\(\) > data\.len\(\) \{\s*return Err\(std::io::Error::from\(std::io::ErrorKind::UnexpectedEof\)\.into\(\)\);", pr, "parse: data_size guard")
    before(r"header\.validate\(\)\?;", r"header\.data_size\(\) > data\.len\(\)", pr, "parse: validate before the size guard")
    before(r"header\.data_size\(\) > data\.len\(\)", r"ESpecTable::parse", pr, "parse: size guard before ESpec")
    before(r"ESpecTable::parse", r"Self::parse_ckey_pages", pr, "parse: ESpec before CKey pages")
    before(r"Self::parse_ckey_pages", r"Self::parse_ekey_pages", pr, "parse: CKey pages before EKey pages")
    for fn, sz, ent in [("parse_ckey_pages", "ckey_page_size", "CKeyPageEntry"), ("parse_ekey_pages", "ekey_page_size", "EKeyPageEntry")]:
        b = fn_body(ef, fn)
        need(r"let mut page_data = vec!\[0u8; " + sz + r"\];\s*cursor\.read_exact\(&mut page_data\)\?;", b, f"{fn}: whole page read")
        need(r"if !index\.verify\(&page_data\) \{\s*return Err\(EncodingError::ChecksumMismatch\);\s*\}", b, f"{fn}: verify → ChecksumMismatch")
        before(r"index\.verify\(&page_data\)", ent + r"::read_options", b, f"{fn}: verify before the entry loop")
        need(r"let " + sz + r" = header\." + sz + r"\(\);", b, f"{fn}: page size from the header")
    d("enc_verify_before_entries", True, "`parse_ckey_pages` / `parse_ekey_pages`: read the whole page, `index.verify(&page_data)` (else ChecksumMismatch), THEN the entry loop")
    w("")
    w("end Cascette.Generated.IntegritySrc")
    return "\n".join(out) + "\n"


def main():
    try:
        text = translate()
    except (TranslationError, OSError, ValueError) as ex:
        print(f"rs2lean_integrity: translation error: {ex}", file=sys.stderr)
        return 1
    old = open(OUT).read() if os.path.exists(OUT) else None
    if old != text:
        os.makedirs(os.path.dirname(OUT), exist_ok=True)
        tmp = OUT + ".tmp"
        open(tmp, "w").write(text)
        os.replace(tmp, OUT)
        print(f"rs2lean_integrity: wrote {OUT}")
    else:
        print("rs2lean_integrity: up to date")
    return 0


if __name__ == "__main__":
    sys.exit(main())
