#!/bin/bash
# try_seed.sh Cxx <patch.diff> [tier] — apply a seeded change to /repo under the exclusive repo
# lock, run the property's check, undo the change (reverse-apply, so other uncommitted work in
# /repo is left alone). Prints the check's last lines and its exit code.
pid=$1; patch=$(readlink -f "$2"); tier=${3:-quick}
exec 9>/verif/.repo.lock
flock -x 9
cd /repo || exit 2
if ! git apply --check "$patch" 2>/tmp/try_seed_err.txt; then echo "PATCH DOES NOT APPLY: $(cat /tmp/try_seed_err.txt)"; exit 3; fi
git apply "$patch"
# evidence backup: a run against a mutated tree must never leave its evidence file behind
cp /verif/evidence/$pid.json /tmp/try_seed_evidence_$pid.json 2>/dev/null
cd /verif && VERIF_NOLOCK=1 timeout 1200 ./check "$pid" --tier "$tier" > /tmp/try_seed_$pid.log 2>&1; rc=$?
cd /repo && git apply -R "$patch"
cp /tmp/try_seed_evidence_$pid.json /verif/evidence/$pid.json 2>/dev/null
grep -E "^(VIOLATION|KNOWN-FINDING|OK )" /tmp/try_seed_$pid.log | cut -c1-400
echo "check rc=$rc"
exit $rc
