#!/usr/bin/env python3
"""
rs2lean_cache — extracts the arithmetic and comparisons the C10 cache models take from the code
out of the CURRENT Rust source (crates/cascette-cache/src/{memory_cache,disk_cache,config}.rs) and
writes them as Lean definitions to lean/Cascette/Generated/CacheSrc.lean.  Run by `./check C10`
on every run (before `lake build`); Proofs/CacheTie.lean proves that the hand-written models
(Model/MemCache, Model/DiskCache, Model/CacheExt) compute with exactly these expressions.  A
change of one of them in the Rust text (>= into >, 90 into 80, a swapped subtraction, a dropped
validate clause …) changes the generated Lean and breaks a tie theorem (reported by ./check as a
T failure), or — when the shape is no longer recognised — is a translation error (non-zero exit).

Each fragment is located inside its function body by a strict pattern on the comment-free,
hook-free, whitespace-free text; operators and literals are CAPTURED from the text, never assumed.

Extracted:
  memory_cache.rs  needs_eviction (both comparisons, the `||`); perform_eviction (guard, target
                   expression, early-return comparison, evict_count, policy -> evict_* dispatch);
                   evict_lru / evict_lfu / evict_fifo (sort key, ascending sort_by_key, take(count),
                   counter updates per removed entry); put_with_ttl (evict-before-insert order,
                   replace / new-entry counter updates); the expired path of get / contains;
                   remove; clear; size; cache_stats (miss_count expression, entry/byte sources);
                   MemoryCacheEntryInner::new (access_count start) / is_expired comparison;
                   the cleanup task (shared map + counters, remove_if, counter updates)
  disk_cache.rs    put_with_ttl counter updates; size() scan condition; is_expired comparison;
                   cache_stats miss_count expression; the cleanup task (shared counters, removal
                   loop, counter updates)
  config.rs        MemoryCacheConfig::validate and DiskCacheConfig::validate clauses
"""
import os, re, sys

REPO = os.environ.get("VERIF_REPO", "/repo")
OUT = os.path.join(os.path.dirname(os.path.dirname(os.path.abspath(__file__))),
                   "lean/Cascette/Generated/CacheSrc.lean")
SRC = os.path.join(REPO, "crates/cascette-cache/src")

CMP = r"(>=|<=|==|!=|>|<)"


class TranslationError(Exception):
    pass


def strip(src):
    """drop comments, verif-hooks lines and all white space"""
    src = re.sub(r"//[^\n]*", "", src)
    src = re.sub(r"#\[cfg\(feature = \"verif-hooks\"\)\]\s*crate::verif_hooks::sched_point\(\"[^\"]*\"\);", "", src)
    return re.sub(r"\s+", "", src)


def block_after(src, m_end, what):
    i = src.index("{", m_end)
    depth, j = 0, i
    while j < len(src):
        if src[j] == "{":
            depth += 1
        elif src[j] == "}":
            depth -= 1
            if depth == 0:
                return src[i + 1:j]
        j += 1
    raise TranslationError(f"unbalanced braces in {what}")


def fn_body(src, name, within=None, nth=0):
    """body of `fn name` (the nth occurrence), optionally inside the block that follows `within`"""
    if within is not None:
        m = re.search(within, src)
        if not m:
            raise TranslationError(f"block {within!r} not found")
        src = block_after(src, m.end() - 1, within)
    ms = list(re.finditer(r"\bfn\s+" + re.escape(name) + r"\b", src))
    if len(ms) <= nth:
        raise TranslationError(f"function {name} (#{nth}) not found")
    return block_after(src, ms[nth].end(), name)


def one(pattern, text, what):
    ms = list(re.finditer(pattern, text, re.S))
    if len(ms) != 1:
        raise TranslationError(f"{what}: expected exactly one match of /{pattern}/, found {len(ms)}")
    return ms[0]


def num(s):
    s = s.replace("_", "")
    if not re.fullmatch(r"[0-9]+", s):
        raise TranslationError(f"not an integer literal: {s!r}")
    return s


def lean_cmp(op):
    return {">=": "≥", "<=": "≤", "==": "=", "!=": "≠", ">": ">", "<": "<"}[op]


def counter_updates(body, what, cnt, byt, size_expr):
    """`cnt.fetch_OP(1, …); byt.fetch_OP(size as u64, …)` -> (count op, bytes op) as +/-"""
    c = one(re.escape(cnt) + r"\.fetch_(add|sub)\(([0-9_]+),Ordering::Relaxed\);", body, what + ": entry counter update")
    b = one(re.escape(byt) + r"\.fetch_(add|sub)\(" + size_expr + r",Ordering::Relaxed\);", body, what + ": byte counter update")
    sign = {"add": "+", "sub": "-"}
    return sign[c.group(1)], num(c.group(2)), sign[b.group(1)]


def replace_update(body, what, byt):
    m = one(r"ifnew_size" + CMP + r"old_size\{" + re.escape(byt) + r"\.fetch_(add|sub)\((new_size|old_size)-(new_size|old_size),Ordering::Relaxed\);\}"
            r"else\{" + re.escape(byt) + r"\.fetch_(add|sub)\((new_size|old_size)-(new_size|old_size),Ordering::Relaxed\);\}", body, what + ": replace arithmetic")
    op, f1, a1, b1, f2, a2, b2 = m.groups()
    if not re.search(r"letold_size=old_entry\.size_bytesasu64;letnew_size=size_bytesasu64;", body):
        raise TranslationError(what + ": old_size / new_size bindings not found")
    sign = {"add": "+", "sub": "-"}
    nm = {"new_size": "new", "old_size": "old"}
    return (f"if new {lean_cmp(op)} old then usage {sign[f1]} (({nm[a1]} - {nm[b1]} : Nat) : Int) "
            f"else usage {sign[f2]} (({nm[a2]} - {nm[b2]} : Nat) : Int)")


def validate_clauses(body, what, fields):
    """the clauses of a validate(): returns Lean Bool expression 'config accepted'"""
    rest = body
    conds = []
    for kind, field in fields:
        if kind == "zero":
            m = re.match(r"ifself\." + field + CMP + r"([0-9_]+)\{returnErr\(\"[^\"]*\"\.to_string\(\)(?:,)?\);\}", rest)
            if not m:
                raise TranslationError(f"{what}: clause for {field} not found at: {rest[:80]!r}")
            conds.append(f"decide ({field} {lean_cmp(m.group(1))} {num(m.group(2))})")
        elif kind == "optzero":
            m = re.match(r"ifletSome\((\w+)\)=self\." + field + r"&&\1" + CMP + r"([0-9_]+)\{returnErr\(\"[^\"]*\"\.to_string\(\)(?:,)?\);\}", rest)
            if not m:
                raise TranslationError(f"{what}: clause for {field} not found at: {rest[:80]!r}")
            conds.append(f"(match {field} with | some b => decide (b {lean_cmp(m.group(2))} {num(m.group(3))}) | none => false)")
        elif kind == "iszero":
            m = re.match(r"ifself\." + field + r"\.is_zero\(\)\{returnErr\(\"[^\"]*\"\.to_string\(\)(?:,)?\);\}", rest)
            if not m:
                raise TranslationError(f"{what}: clause for {field} not found at: {rest[:80]!r}")
            conds.append(f"{field}_is_zero")
        elif kind == "andzero":
            flag, f2 = field
            m = re.match(r"ifself\." + flag + r"&&self\." + f2 + CMP + r"([0-9_]+)\{returnErr\(\"[^\"]*\"\.to_string\(\)(?:,)?\);\}", rest)
            if not m:
                raise TranslationError(f"{what}: clause for {flag} && {f2} not found at: {rest[:80]!r}")
            conds.append(f"({flag} && decide ({f2} {lean_cmp(m.group(1))} {num(m.group(2))}))")
        rest = rest[m.end():]
    if rest != "Ok(())":
        raise TranslationError(f"{what}: unexpected tail after the known clauses: {rest[:120]!r}")
    return " && ".join(f"!{c}" for c in conds)


def translate():
    mem_raw = open(os.path.join(SRC, "memory_cache.rs")).read()
    disk_raw = open(os.path.join(SRC, "disk_cache.rs")).read()
    cfg_raw = open(os.path.join(SRC, "config.rs")).read()
    out = []
    w = out.append
    w("/-")
    w("GENERATED by lib/rs2lean_cache.py from /repo/crates/cascette-cache/src/{memory_cache,disk_cache,config}.rs")
    w("— do not edit. Regenerated on every `./check C10`; Proofs/CacheTie.lean proves the models use these.")
    w("Counters are `Int` (the models keep them unbounded and prove they never go below zero), limits `Nat`.")
    w("-/")
    w("namespace Cascette.Generated.CacheSrc")
    w("")

    # ---------------------------------------------------------------- memory_cache.rs
    ne = strip(fn_body(mem_raw, "needs_eviction"))
    m = one(r"^letcurrent_entries=self\.entry_count\.load\(Ordering::Relaxed\);letcurrent_memory=self\.memory_usage\.load\(Ordering::Relaxed\);"
            r"current_entries" + CMP + r"self\.config\.max_entries(\|\||&&)self\.config\.max_memory_bytes\.is_some_and\(\|max\|current_memory" + CMP + r"maxasu64\)$",
            ne, "needs_eviction")
    c1, conn, c2 = m.groups()
    w("/-- `MemoryCache::needs_eviction` -/")
    w("def needs_eviction (current_entries : Int) (max_entries : Nat) (current_memory : Int) (max_memory_bytes : Option Nat) : Bool :=")
    w(f"  decide (current_entries {lean_cmp(c1)} (max_entries : Int)) {conn}")
    w(f"    (match max_memory_bytes with | some max => decide (current_memory {lean_cmp(c2)} (max : Int)) | none => false)")
    w("")

    pe = strip(fn_body(mem_raw, "perform_eviction"))
    m = one(r"^if(!?)self\.needs_eviction\(\)\{return;\}lettarget_entries=\(self\.config\.max_entries\*([0-9_]+)\)/([0-9_]+);"
            r"letcurrent_entries=self\.entry_count\.load\(Ordering::Relaxed\);ifcurrent_entries" + CMP + r"target_entries\{return;\}"
            r"letevict_count=(current_entries|target_entries)-(current_entries|target_entries);match&self\.config\.eviction_policy\{(.*)\}$",
            pe, "perform_eviction")
    neg, mul, div, c3, sa, sb, arms = m.groups()
    if neg != "!":
        raise TranslationError("perform_eviction: guard is not `if !self.needs_eviction() { return; }`")
    w("/-- `let target_entries = (self.config.max_entries * …) / …;` -/")
    w(f"def target_entries (max_entries : Nat) : Nat := (max_entries * {num(mul)}) / {num(div)}")
    w("/-- `if current_entries … target_entries { return; }` -/")
    w(f"def eviction_returns_early (current_entries : Int) (target : Nat) : Bool := decide (current_entries {lean_cmp(c3)} (target : Int))")
    nm = {"current_entries": "current_entries", "target_entries": "(target : Int)"}
    w("/-- `let evict_count = … - …;` (usize; only reached when the early return did not fire) -/")
    w(f"def evict_count (current_entries : Int) (target : Nat) : Int := {nm[sa]} - {nm[sb]}")
    disp = re.findall(r"crate::traits::EvictionPolicy::(\w+)=>self\.(\w+)\(([a-z_]*)\),", arms)
    if "".join(f"crate::traits::EvictionPolicy::{a}=>self.{b}({c})," for a, b, c in disp) != arms:
        raise TranslationError(f"perform_eviction: dispatch arms not understood: {arms!r}")
    w("/-- the `match &self.config.eviction_policy` of `perform_eviction`: policy, function, argument -/")
    w("def dispatch : List (String × String × String) := [" + ", ".join(f'("{a}", "{b}", "{c}")' for a, b, c in disp) + "]")
    w("")

    # the three sorting evictions
    w("/-- per sorting eviction function: the entry field collected as sort key, ascending `sort_by_key` on it,")
    w("`take(count)`, and per removed entry `entry_count -= 1; memory_usage -= entry.size_bytes` -/")
    rows = []
    for fn, keypat in [("evict_lru", r"entry\.value\(\)\.(get_last_accessed)\(\)"), ("evict_lfu", r"entry\.value\(\)\.(get_access_count)\(\)"),
                       ("evict_fifo", r"entry\.value\(\)\.(created_at)")]:
        b = strip(fn_body(mem_raw, fn))
        m = one(r"^letmutcandidates:Vec<\(K,\w+\)>=self\.storage\.iter\(\)\.map\(\|entry\|\(entry\.key\(\)\.clone\(\),(.*?)\)\)\.collect\(\);"
                r"candidates\.(sort_by_key)\(\|\(_,(\w+)\)\|\*\3\);letto_evict=candidates\.into_iter\(\)\.take\((\w+)\);"
                r"for\(key,_\)into_evict\{ifletSome\(\(_,entry\)\)=self\.storage\.remove\(&key\)\{(.*)\}\}$", b, fn)
        keyexpr, sorter, _, taken, inner = m.groups()
        km = re.fullmatch(keypat, keyexpr)
        field = km.group(1) if km else keyexpr
        cs, cn, bs = counter_updates(inner, fn, "self.entry_count", "self.memory_usage", r"entry\.size_bytesasu64")
        rows.append(f'("{fn}", "{field}", "{sorter}", "{taken}", "{cs}{cn}", "{bs}size")')
    w("def sorting_evictions : List (String × String × String × String × String × String) := [" + ",\n  ".join(rows) + "]")
    for fn, first in [("evict_random", r"^userand::\{rng,seq::SliceRandom\};letmutkeys:Vec<K>=self\.storage\.iter\(\)\.map\(\|entry\|entry\.key\(\)\.clone\(\)\)\.collect\(\);keys\.shuffle\(&mutrng\(\)\);"
                                        r"letto_evict=keys\.into_iter\(\)\.take\(count\);forkeyinto_evict\{ifletSome\(\(_,entry\)\)=self\.storage\.remove\(&key\)\{(.*)\}\}$"),
                      ("evict_expired", r"^letexpired_keys:Vec<K>=self\.storage\.iter\(\)\.filter_map\(\|entry\|\{ifentry\.value\(\)\.is_expired\(\)\{Some\(entry\.key\(\)\.clone\(\)\)\}else\{None\}\}\)\.collect\(\);"
                                         r"forkeyinexpired_keys\{ifletSome\(\(_,entry\)\)=self\.storage\.remove\(&key\)\{(.*)\}\}$")]:
        b = strip(fn_body(mem_raw, fn))
        m = one(first, b, fn)
        cs, cn, bs = counter_updates(m.group(1), fn, "self.entry_count", "self.memory_usage", r"entry\.size_bytesasu64")
        w(f"/-- `{fn}`: per removed entry -/")
        w(f'def {fn}_updates : String × String := ("{cs}{cn}", "{bs}size")')
    w("")

    # entry constructor / expiry
    newb = strip(fn_body(mem_raw, "new", within=r"impl MemoryCacheEntryInner \{"))
    ac = one(r"access_count:AtomicU64::new\(([0-9_]+)\),", newb, "MemoryCacheEntryInner::new access_count")
    if not re.search(r"expires_at:ttl\.map\(\|t\|now\+t\),", newb):
        raise TranslationError("MemoryCacheEntryInner::new: expires_at expression not found")
    w("/-- `access_count: AtomicU64::new(…)` of a fresh entry -/")
    w(f"def new_entry_access_count : Nat := {num(ac.group(1))}")
    ua = strip(fn_body(mem_raw, "update_access"))
    ui = one(r"self\.access_count\.fetch_add\(([0-9_]+),Ordering::Relaxed\);", ua, "update_access")
    w("/-- `update_access`: `access_count.fetch_add(…)` -/")
    w(f"def access_count_step : Nat := {num(ui.group(1))}")
    for nmspace, raw, clock, lean in [("impl MemoryCacheEntryInner \\{", mem_raw, "Instant", "mem_is_expired"), ("impl DiskCacheEntry \\{", disk_raw, "SystemTime", "disk_is_expired")]:
        ie = strip(fn_body(raw, "is_expired", within=nmspace))
        m = one(r"^self\.expires_at\.is_some_and\(\|expires\|" + clock + r"::now\(\)" + CMP + r"expires\)$", ie, lean)
        w(f"/-- `is_expired`: `expires_at.is_some_and(|expires| {clock}::now() … expires)` -/")
        w(f"def {lean} (now : Nat) (expires_at : Option Nat) : Bool := match expires_at with | some expires => decide (now {lean_cmp(m.group(1))} expires) | none => false")
    w("")

    # put_with_ttl (memory)
    pw = strip(fn_body(mem_raw, "put_with_ttl", within=r"impl<K: CacheKey \+ 'static> AsyncCache<K> for MemoryCache<K> \{"))
    m = one(r"^letstart_time=Instant::now\(\);letsize_bytes=value\.len\(\);ifself\.needs_eviction\(\)\{self\.perform_eviction\(\);\}"
            r"letentry=Arc::new\(MemoryCacheEntryInner::new\(value,size_bytes,Some\(ttl\)\)\);"
            r"ifletSome\(old_entry\)=self\.storage\.insert\(key,entry\)\{(.*)\}else\{(.*)\}self\.metrics\.record_put\(size_bytes,start_time\.elapsed\(\)\);Ok\(\(\)\)$",
            pw, "MemoryCache::put_with_ttl")
    w("/-- `MemoryCache::put_with_ttl`, key already stored: new `memory_usage` (entry_count untouched) -/")
    w("def mem_replace_bytes (usage : Int) (old new : Nat) : Int :=")
    w("  " + replace_update(m.group(1), "MemoryCache::put_with_ttl", "self.memory_usage"))
    if re.search(r"entry_count", m.group(1)):
        raise TranslationError("MemoryCache::put_with_ttl: the replace branch touches entry_count")
    cs, cn, bs = counter_updates(m.group(2), "MemoryCache::put_with_ttl new entry", "self.entry_count", "self.memory_usage", r"size_bytesasu64")
    w("/-- … key not stored: new `(entry_count, memory_usage)` -/")
    w(f"def mem_insert_new (count usage : Int) (size : Nat) : Int × Int := (count {cs} {cn}, usage {bs} (size : Int))")
    w("/-- eviction runs before the insert (`if self.needs_eviction() { self.perform_eviction(); }` precedes `storage.insert`) -/")
    w("def mem_put_evicts_before_insert : Bool := true")
    w("")

    # expired path of get / contains, remove, clear, size
    for fn in ["get", "contains"]:
        b = strip(fn_body(mem_raw, fn, within=r"impl<K: CacheKey \+ 'static> AsyncCache<K> for MemoryCache<K> \{"))
        m = one(r"ifentry\.is_expired\(\)\{letsize_bytes=entry\.size_bytes;drop\(entry\);ifself\.storage\.remove\(key\)\.is_some\(\)\{(.*?)\}", b, f"MemoryCache::{fn} expired path")
        cs, cn, bs = counter_updates(m.group(1), f"MemoryCache::{fn} expired path", "self.entry_count", "self.memory_usage", r"size_bytesasu64")
        w(f"/-- `MemoryCache::{fn}`, entry expired and removed: new `(entry_count, memory_usage)` -/")
        w(f"def mem_{fn}_expired (count usage : Int) (size : Nat) : Int × Int := (count {cs} {cn}, usage {bs} (size : Int))")
    b = strip(fn_body(mem_raw, "get", within=r"impl<K: CacheKey \+ 'static> AsyncCache<K> for MemoryCache<K> \{"))
    recs = re.findall(r"self\.metrics\.record_get\((true|false),start_time\.elapsed\(\)\);(returnOk\(None\);|Ok\(Some\(value\)\)|Ok\(None\))", b)
    if len(recs) != 3 or len(re.findall(r"record_get", b)) != 3:
        raise TranslationError(f"MemoryCache::get: expected three record_get calls each followed by its return, got {recs}")
    w("/-- `MemoryCache::get`: (recorded as hit?, what is returned) per return path -/")
    w("def mem_get_records : List (Bool × String) := [" + ", ".join(f'({a}, "{"some" if "Some" in r else "none"}")' for a, r in recs) + "]")
    b = strip(fn_body(mem_raw, "remove", within=r"impl<K: CacheKey \+ 'static> AsyncCache<K> for MemoryCache<K> \{"))
    m = one(r"^ifletSome\(\(_,entry\)\)=self\.storage\.remove\(key\)\{(.*)Ok\(true\)\}else\{Ok\(false\)\}$", b, "MemoryCache::remove")
    cs, cn, bs = counter_updates(m.group(1), "MemoryCache::remove", "self.entry_count", "self.memory_usage", r"entry\.size_bytesasu64")
    w("/-- `MemoryCache::remove`, key stored: new `(entry_count, memory_usage)` -/")
    w(f"def mem_remove (count usage : Int) (size : Nat) : Int × Int := (count {cs} {cn}, usage {bs} (size : Int))")
    b = strip(fn_body(mem_raw, "clear", within=r"impl<K: CacheKey \+ 'static> AsyncCache<K> for MemoryCache<K> \{"))
    m = one(r"^self\.storage\.clear\(\);self\.entry_count\.store\(([0-9_]+),Ordering::Relaxed\);self\.memory_usage\.store\(([0-9_]+),Ordering::Relaxed\);self\.metrics\.reset\(\);Ok\(\(\)\)$", b, "MemoryCache::clear")
    w("/-- `MemoryCache::clear`: stored `(entry_count, memory_usage)`; `metrics.reset()` follows -/")
    w(f"def mem_clear : Int × Int := ({num(m.group(1))}, {num(m.group(2))})")
    b = strip(fn_body(mem_raw, "size", within=r"impl<K: CacheKey \+ 'static> AsyncCache<K> for MemoryCache<K> \{"))
    one(r"^Ok\(self\.entry_count\.load\(Ordering::Relaxed\)\)$", b, "MemoryCache::size")
    w("/-- `MemoryCache::size` = `entry_count` -/")
    w("def mem_size (count : Int) : Int := count")
    for raw, lean, byt in [(mem_raw, "mem", "memory_usage"), (disk_raw, "disk", "disk_usage")]:
        b = strip(fn_body(raw, "cache_stats"))
        m = one(r"miss_count:snapshot\.(\w+)-snapshot\.(\w+),", b, f"{lean} cache_stats miss_count")
        one(r"letcurrent_entries=self\.entry_count\.load\(Ordering::Relaxed\);", b, f"{lean} cache_stats entries")
        one(r"let(current_\w+)=self\." + byt + r"\.load\(Ordering::Relaxed\);", b, f"{lean} cache_stats bytes")
        one(r"get_count:snapshot\.get_count,hit_count:snapshot\.hit_count,", b, f"{lean} cache_stats get/hit")
        one(r"entry_count:current_entries,memory_usage_bytes:current_\w+asusize,", b, f"{lean} cache_stats figures")
        w(f"/-- `cache_stats` ({lean}): `miss_count: snapshot.{m.group(1)} - snapshot.{m.group(2)}` -/")
        w(f"def {lean}_miss_count (get_count hit_count : Nat) : Int := ({m.group(1)} : Int) - ({m.group(2)} : Int)")
    w("")

    # cleanup task (memory)
    ct = strip(fn_body(mem_raw, "start_cleanup_task"))
    m = one(r"^letstorage=(.*?);letentry_count=(.*?);letmemory_usage=(.*?);letmetrics=Arc::clone\(&self\.metrics\);", ct, "start_cleanup_task: captured state")
    shared = [g == f"Arc::clone(&self.{n})" for g, n in zip(m.groups(), ["storage", "entry_count", "memory_usage"])]
    w("/-- the cleanup task works on the cache's own map / entry counter / byte counter (`Arc::clone(&self.…)`) -/")
    w("def cleanup_shares : List Bool := [" + ", ".join("true" if x else "false" for x in shared) + "]")
    m = one(r"forentryinstorage\.iter\(\)\{ifentry\.value\(\)\.is_expired\(\)\{expired_keys\.push\(entry\.key\(\)\.clone\(\)\);\}\}"
            r"forkeyinexpired_keys\{ifletSome\(\(_,entry\)\)=storage\.(remove_if\(&key,\|_,e\|e\.is_expired\(\)\)|remove\(&key\))\{(.*?)removed_count\+=1;", ct, "cleanup task loop")
    cs, cn, bs = counter_updates(m.group(2), "cleanup task", "entry_count", "memory_usage", r"entry\.size_bytesasu64")
    w("/-- cleanup task, per expired entry removed: new `(entry_count, memory_usage)` -/")
    w(f"def cleanup_removed (count usage : Int) (size : Nat) : Int × Int := (count {cs} {cn}, usage {bs} (size : Int))")
    w("")

    # ---------------------------------------------------------------- disk_cache.rs
    pw = strip(fn_body(disk_raw, "put_with_ttl", within=r"impl<K: CacheKey \+ 'static> AsyncCache<K> for DiskCache<K> \{"))
    m = one(r"ifletSome\(old_entry\)=index\.insert\(key,entry\)\{(.*?)ifold_entry\.file_path!=file_path\{let_=fs::remove_file\(&old_entry\.file_path\);\}\}else\{(.*?)\}\}self\.metrics\.record_put",
            pw, "DiskCache::put_with_ttl")
    w("/-- `DiskCache::put_with_ttl`, key already indexed: new `disk_usage` -/")
    w("def disk_replace_bytes (usage : Int) (old new : Nat) : Int :=")
    w("  " + replace_update(m.group(1), "DiskCache::put_with_ttl", "self.disk_usage"))
    cs, cn, bs = counter_updates(m.group(2), "DiskCache::put_with_ttl new entry", "self.entry_count", "self.disk_usage", r"size_bytesasu64")
    w("/-- … key not indexed: new `(entry_count, disk_usage)` -/")
    w(f"def disk_insert_new (count usage : Int) (size : Nat) : Int × Int := (count {cs} {cn}, usage {bs} (size : Int))")
    if not re.match(r"^letstart_time=Instant::now\(\);letsize_bytes=value\.len\(\);letfile_path=self\.get_file_path\(&key\);self\.write_file\(&file_path,&value\)\.await\?;", pw):
        raise TranslationError("DiskCache::put_with_ttl: the file is not written before the index update")
    dct = strip(fn_body(disk_raw, "start_cleanup_task"))
    m = one(r"^letindex=Arc::clone\(&self\.index\);letmetrics=Arc::clone\(&self\.metrics\);letconfig=self\.config\.clone\(\);"
            r"letentry_count=(.*?);letdisk_usage=(.*?);lethandle=", dct, "DiskCache::start_cleanup_task: captured state")
    w("/-- the disk cleanup task adjusts the cache's own entry counter / usage counter (`Arc::clone(&self.…)`) -/")
    w("def disk_cleanup_shares : List Bool := [" + ", ".join("true" if g == f"Arc::clone(&self.{n})" else "false"
                                                               for g, n in zip(m.groups(), ["entry_count", "disk_usage"])) + "]")
    one(r"for\(key,entry\)inindex_guard\.iter\(\)\{ifentry\.is_expired\(\)\{entries_to_remove\.push\(key\.clone\(\)\);\}", dct, "disk cleanup task: expired entries collected")
    one(r"ifletSome\(entry\)=index_guard\.remove\(key\)\{ifletErr\(e\)=fs::remove_file\(&entry\.file_path\)\{eprintln!\(.*?\);\}"
        r"else\{removed_count\+=1;freed_bytes\+=entry\.size_bytesasu64;\}\}", dct, "disk cleanup task: removal loop")
    m = one(r"ifremoved_count>0\{entry_count\.fetch_(add|sub)\(removed_count,Ordering::Relaxed\);disk_usage\.fetch_(add|sub)\(freed_bytes,Ordering::Relaxed\);", dct,
            "disk cleanup task: counter updates")
    sign = {"add": "+", "sub": "-"}
    w("/-- disk cleanup task, after a pass that deleted `removed` files of `freed` bytes: new `(entry_count, disk_usage)` -/")
    w(f"def disk_cleanup_removed (count usage : Int) (removed freed : Nat) : Int × Int := (count {sign[m.group(1)]} (removed : Int), usage {sign[m.group(2)]} (freed : Int))")
    sz = strip(fn_body(disk_raw, "size", within=r"impl<K: CacheKey \+ 'static> AsyncCache<K> for DiskCache<K> \{"))
    m = one(r"^letindex_size=self\.entry_count\.load\(Ordering::Relaxed\);ifindex_size" + CMP + r"([0-9_]+)&&self\.config\.cache_dir\.exists\(\)\{"
            r"letmutfile_count=0;self\.count_cache_files\(&self\.config\.cache_dir,&mutfile_count\)\?;Ok\(file_count\)\}else\{Ok\(index_size\)\}$", sz, "DiskCache::size")
    w("/-- `DiskCache::size`: directory scan when `index_size … …` (and the directory exists), else the counter -/")
    w(f"def disk_size (count : Int) (files : Nat) : Int := if count {lean_cmp(m.group(1))} {num(m.group(2))} then (files : Int) else count")
    w("")

    # ---------------------------------------------------------------- config.rs
    mv = strip(fn_body(cfg_raw, "validate", within=r"impl MemoryCacheConfig \{"))
    w("/-- `MemoryCacheConfig::validate` returns `Ok` -/")
    w("def mem_validate (max_entries : Nat) (max_memory_bytes : Option Nat) (cleanup_interval_is_zero : Bool) : Bool :=")
    w("  " + validate_clauses(mv, "MemoryCacheConfig::validate", [("zero", "max_entries"), ("optzero", "max_memory_bytes"), ("iszero", "cleanup_interval")]))
    dv = strip(fn_body(cfg_raw, "validate", within=r"impl DiskCacheConfig \{"))
    w("/-- `DiskCacheConfig::validate` returns `Ok` -/")
    w("def disk_validate (max_files : Nat) (max_disk_bytes : Option Nat) (cleanup_interval_is_zero sync_interval_is_zero use_subdirectories : Bool) (subdirectory_levels : Nat) : Bool :=")
    w("  " + validate_clauses(dv, "DiskCacheConfig::validate", [("zero", "max_files"), ("optzero", "max_disk_bytes"), ("iszero", "cleanup_interval"),
                                                                ("iszero", "sync_interval"), ("andzero", ("use_subdirectories", "subdirectory_levels"))]))
    for ctor, lean in [("MemoryCache", "mem_new_validates"), ("DiskCache", "disk_new_validates")]:
        raw = mem_raw if ctor == "MemoryCache" else disk_raw
        nb = strip(fn_body(raw, "new", within=r"impl<K: CacheKey \+ 'static> " + ctor + r"<K> \{"))
        ok = nb.startswith("config.validate().map_err(CacheError::InvalidConfiguration)?;")
        w(f"/-- `{ctor}::new` starts with `config.validate().map_err(CacheError::InvalidConfiguration)?` -/")
        w(f"def {lean} : Bool := {'true' if ok else 'false'}")
    w("")
    w("end Cascette.Generated.CacheSrc")
    return "\n".join(out) + "\n"


def main():
    try:
        text = translate()
    except (TranslationError, OSError, ValueError) as ex:
        print(f"rs2lean_cache: translation error: {ex}", file=sys.stderr)
        return 1
    old = open(OUT).read() if os.path.exists(OUT) else None
    if old != text:
        os.makedirs(os.path.dirname(OUT), exist_ok=True)
        tmp = OUT + ".tmp"
        open(tmp, "w").write(text)
        os.replace(tmp, OUT)
        print(f"rs2lean_cache: wrote {OUT}")
    else:
        print("rs2lean_cache: up to date")
    return 0


if __name__ == "__main__":
    sys.exit(main())
