#!/usr/bin/env python3
"""mkseed.py Cxx N — prepare a scratch worktree and the prompt for a seeded-mutation agent."""
import json, os, subprocess, sys
pid, n = sys.argv[1], sys.argv[2]
tag = sys.argv[3] if len(sys.argv) > 3 else "a"
wt = f"/tmp/wt_{pid}{tag}"
out = f"/tmp/seedout_{pid}{tag}"
rec = next(json.loads(l) for l in open("/verif/properties.jsonl") if json.loads(l)["id"] == pid)
if not os.path.exists(wt):
    subprocess.check_call(["git", "-C", "/repo", "worktree", "add", "--detach", wt, "HEAD"])
    if not os.environ.get("NOCOPY"):
        subprocess.call(["cp", "-a", "/repo/target", wt + "/target"])
os.makedirs(out, exist_ok=True)
t = open("/verif/lib/seed_prompt.txt").read()
t = (t.replace("{WT}", wt).replace("{PID}", pid).replace("{pid}", pid.lower()).replace("{N}", n).replace("{OUT}", out)
      .replace("{TITLE}", rec["title"]).replace("{STATEMENT}", rec["statement"]).replace("{QUANT}", rec["quantifier"]["text"])
      .replace("{FILES}", ", ".join(rec["anchors"]["files"])))
import glob
earlier = []
for m in sorted(glob.glob(f"/verif/seeded/{pid}-*/meta.json")):
    j = json.load(open(m))
    n = open(os.path.join(os.path.dirname(m), "notes.md")).read() if os.path.exists(os.path.join(os.path.dirname(m), "notes.md")) else ""
    first = next((l.strip("# ").strip() for l in n.splitlines() if l.strip()), "")
    earlier.append(f"- {first[:160]} (needs: {j['needs_to_manifest'][:200]})")
if earlier:  # EARLIER
    t += "\n\nEarlier rounds already produced the following changes for this property; produce DIFFERENT ones (other functions, other clauses of the property, other trigger classes):\n" + "\n".join(earlier) + "\n"
if os.environ.get("NOCOPY"):
    t = t.replace("a warm copy of the build cache is already in", "the build cache is cold, the first build takes a few minutes, in")
open(f"/tmp/seedprompt_{pid}{tag}.txt", "w").write(t)
print(wt, out, f"/tmp/seedprompt_{pid}{tag}.txt")
