"""Per-property configuration for ./check (see DESIGN.md §6)."""

COMMON_TB = [
    "Lean 4.33.0 kernel (plus leanchecker re-check in the thorough tier)",
    "axioms allowed: propext, Classical.choice, Quot.sound (audited per theorem by #print axioms on every run); no sorry/admit/native_decide/bv_decide/own axioms (grep on every run)",
    "hand-written executable models under lean/Cascette/Model tied to /repo's working tree by the correspondence run (harness binary runs the real code, drv_* runs the model, outputs diffed line by line) — bounded by generator quality, distribution printed below",
    "the Rust harness (generators, canonicalisers, oracles) and this orchestrator",
]


def P(bin, props_partial=(), tb=(), assumptions=(), features=None, explanation="", timeout_s=None, model_is_spec=()):
    return {
        "bin": bin,
        "driver": "drv_" + bin,
        "driver_root": "Driver." + bin.upper(),
        "features": features,
        "trusted_base": COMMON_TB + list(tb),
        "assumptions": list(assumptions),
        "partial": list(props_partial),
        "explanation": explanation,
        "model_is_spec": list(model_is_spec),
        "timeout_s": timeout_s or {"quick": 900, "thorough": 3000},
    }


PROPS = {
    "C09": P(
        "c09",
        model_is_spec=["salsa", "salsa_split", "hl", "hl2", "j96", "arc4", "arc4_split"],
        props_partial=[
            "MD5 (md-5 crate) and the SIMD intrinsics are compared by the run only (accelerated == scalar == std on every buffer length 0..=200 and every host CPU-feature subset); no Lean model of the intrinsics",
            "ARC4: round-trip, piecewise and key-length theorems are proved of the model; agreement of the model with RC4 is by the published known answers and the differential run",
        ],
        tb=[
            "Spec/Salsa20.lean transcribes DJB's Salsa20 specification; checked against the spec's quarterround vectors and the ECRYPT 128-bit vector by kernel evaluation (tests of the transcription)",
            "Spec/Lookup3.lean transcribes lookup3.c hashlittle/hashlittle2; checked against lookup3.c's driver5 known answers in the run",
        ],
        assumptions=[
            "Rust `[u8;16]` key type: theorems assume key.length = 16",
            "hashlittle* theorems assume input length < 2^32 (beyond it the Rust saturates the length where lookup3.c truncates)",
            "memory safety of the unsafe SIMD code is outside the model",
        ],
    ),
}
