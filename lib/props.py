"""Per-property configuration for ./check: loads lib/cfg/Cxx.py (each defines CFG and TEXT)."""
import glob, importlib.util, os

HERE = os.path.dirname(os.path.abspath(__file__))

COMMON_TB = [
    "Lean 4.33.0 kernel (plus leanchecker re-check in the thorough tier)",
    "axioms allowed: propext, Classical.choice, Quot.sound (audited per theorem by #print axioms on every run); no sorry/admit/native_decide/bv_decide/own axioms (grep on every run)",
    "hand-written executable models under lean/Cascette/Model tied to /repo's working tree by the correspondence run (harness binary runs the real code, drv_* runs the model, outputs diffed line by line) — bounded by generator quality, distribution printed below",
    "the Rust harness (generators, canonicalisers, oracles) and this orchestrator",
]


def P(bin, partial=(), tb=(), assumptions=(), features=None, explanation="", timeout_s=None, model_is_spec=(), pregen=None, model_search=None):
    """bin: harness binary name (src/bin/<bin>.rs); the Lean driver is drv_<bin>, root Driver.<BIN>.
    partial: what is NOT covered by a theorem (run-only or outside the model).
    model_is_spec: request-line first tokens for which the Lean model IS the specification by a
    checked theorem, so that a model/impl disagreement on such a line is itself a violation."""
    return {
        "bin": bin,
        "driver": "drv_" + bin,
        "driver_root": "Driver." + bin.upper(),
        "features": features,
        "trusted_base": COMMON_TB + list(tb),
        "assumptions": list(assumptions),
        "partial": list(partial),
        "explanation": explanation,
        "model_is_spec": list(model_is_spec),
        "pregen": pregen,
        "model_search": model_search,
        "timeout_s": timeout_s or {"quick": 600, "thorough": 3000},
    }


PROPS, TEXT = {}, {}
for path in sorted(glob.glob(os.path.join(HERE, "cfg", "C*.py"))):
    pid = os.path.basename(path)[:-3]
    spec = importlib.util.spec_from_file_location("cfg_" + pid, path)
    mod = importlib.util.module_from_spec(spec)
    mod.P = P
    spec.loader.exec_module(mod)
    PROPS[pid] = mod.CFG
    TEXT[pid] = mod.TEXT
