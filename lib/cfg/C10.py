CFG = P(
    "c10",
    pregen=["python3", "lib/rs2lean_cache.py"],
    partial=[
        "byte budget: the full statement (cached bytes <= max_memory_bytes) is false of the tree (finding mem-bytes-bound, Lean counter-witness mem_bytes_bound_counterexample); what is proved instead is that memory_usage is exactly the sum of the stored sizes",
        "size()/stats() = retrievable: false while ended-TTL entries wait to be swept (findings mem-size-unswept-expired, disk-size-unswept-expired) and on a re-created disk instance (finding disk-size-partial-index); proved: size = retrievable + unswept (memory), counters = index (disk, all histories)",
        "disk expiry across instances: false of the tree (finding disk-ttl-across-instances); get = reference-or-nothing is proved for every history whose reopen steps find no ended-TTL entry still indexed (in particular one instance), and 'never another key's / a replaced value' for every history",
        "which entry a policy evicts is constrained only through victimsOk (n distinct stored keys, none ranked after a survivor); Lfu ties and Random draws are taken from the implementation (ev= hint) and validated by the model, not predicted",
        "background cleanup tasks (new_with_cleanup / new_with_background_tasks), wall-clock TTL granularity and concurrent use (C11) are outside the model",
    ],
    tb=[
        "Spec/CacheMap.lean: the reference map (put / remove / clear / TTL class) the theorems refine to",
        "TTL classes: the harness realises 'far below' with TTLs of 0 ns..1 ms followed by a real sleep of more than 3x the TTL, 'far above' with 1 h; both caches read std::time clocks (not tokio time)",
        "victim hints (ev=) for Lfu/Random are derived by the harness from side-effect-free contains() probes; the model re-checks each hint with victimsOk",
    ],
    assumptions=[
        "DashMap / RwLock<HashMap> / the directory behave as a map with atomic single-key operations (sequential use; concurrency is C11)",
        "the map key -> file name of the disk cache is injective on the keys used and no key string ends in .tmp (key formatting is C20's subject; RibbitKey::new(\"b:c\",\"a\") and RibbitKey::with_product(\"c\",\"a\",\"b\") share the name ribbit:a:b:c)",
        "counters do not overflow u64/usize upwards (model uses unbounded integers; the theorem shows they never go below zero)",
        "no other process touches the cache directory",
    ],
)
TEXT = {
    "text": "Lean 4 theorems over arbitrary operation histories of executable models of MemoryCache and DiskCache (as written; DiskCache::remove after fix a8846ae): a get answers the reference map's value or nothing (memory: every history, every policy and victim choice; disk: every history whose re-creations find no ended-TTL entry indexed, and 'latest put for that exact key' for every history); entry_count / memory_usage / disk_usage equal the number and total size of stored entries after every operation (so they never wrap) and size()/stats() report them; entries <= max_entries after every operation for Lru/Lfu/Fifo/Random with any tie-break or random draw; a long-TTL value survives any operations on other keys and any number of drop-and-recreate; an ended-TTL value is not served by the instance that wrote it. False of the tree, each with a Lean counter-witness, a corpus replay on the real code and a narrow oracle signature: byte budget (eviction sized by entry count), size() counting unswept expired entries, disk TTL and size()/usage across instances. Tied to the code by a differential run over seeded histories (all five policies, max_entries 1..30, byte budgets from 1, values 0..above budget, key populations above capacity, real-time TTL classes, drop-and-recreate) and a reference-map oracle on the implementation.",
    "design_ref": "DESIGN.md §6 C10, Appendix A.5",
    "note": "Trusted: Lean kernel; hand-written models tied by differential run only; TTLs as two classes realised with real sleeps; Lfu/Random victim choice taken from the implementation and validated; key->file-name injectivity assumed.",
    "technique": "Lean 4 proof (invariants + refinement to a reference map by induction over histories) + differential correspondence run + reference-map/bounds oracle",
}
