CFG = P(
    "c14",
    model_is_spec=[],
    pregen=["python3", "lib/rs2lean_retry.py"],
    partial=[
        "f64 arithmetic of the backoff update is an uninterpreted function `scale` in the theorems (they hold for every such function, including one that rejects every value); its concrete IEEE behaviour (as_secs_f64, *, NaN-ignoring min/max, try_from_secs_f64 rounding) is re-implemented exactly in Driver/C14.lean and tied by the run only",
        "the random jitter is an arbitrary function in the theorems; the 30 % law assumed by delay_bounds is checked on every observed delay of the real code by the run (model side: jit-ok/jit-bad, oracle side: against the same case with jitter off)",
        "tokio's timer rounds deadlines up to the next millisecond and clamps unrepresentable deadlines to now+30 years: delays are compared in whole milliseconds (ceil) and capped at that clamp",
        "Rust std `str::parse::<f64>` (CASCETTE_BACKOFF_MULTIPLIER) is a parameter of Model.Retry.fromEnv; the harness passes its result on the request line",
        "CdnClient::download_with_retry is exercised over plain HTTP against a loopback mock with the real clock (status codes, Retry-After strings, request counts, lower bound on the waited hint); reqwest transport errors (ProtocolError::Http) are represented by a boolean in the model and are not scripted by the run",
    ],
    tb=[
        "tokio paused clock (`start_paused(true)`): virtual time advances exactly to the next timer deadline; used to observe every sleep of RetryPolicy::execute",
        "HTTP stack (reqwest/hyper) strips optional whitespace around header values before parse_retry_after sees them (modelled as trimOws)",
    ],
    assumptions=[
        "durations are naturals in nanoseconds; the theorems do not assume hint, initial or max <= Duration::MAX (saturation at Duration::MAX is modelled in the jitter addition)",
        "the closure is modelled by the list of outcomes it returns on successive calls; it takes no virtual time itself",
        "delay_bounds assumes the jitter source adds at most 30 % (10*jit <= 3*base); all other theorems hold for every jitter source",
        "generated initial/max/hint values stay <= 1e7 s or overflow Instant (then tokio clamps to 30 years) so that the paused clock can step through them",
    ],
)
TEXT = {
    "text": "Lean 4 theorems about a model of RetryPolicy::execute as repaired by /repo b7c1430 (first backoff clamped by max_backoff; try_from_secs_f64 + clamp instead of the panicking from_secs_f64; saturating jitter addition), for ALL policies, ALL multipliers (the f64 rescaling is an arbitrary function scale : Nat -> Option Nat, none = a value Duration rejects), ALL jitter sources and ALL outcome scripts: at most max_attempts+1 attempts and exactly the number the specification counts on outcome classes; stops at the first Ok / first non-retryable error / returns the error of attempt max_attempts+1; the value returned is always the outcome of the last attempt made; never requests an outcome after the deciding one; every sleep follows a retried error and equals the Retry-After hint if present else backoffSeq i (+ jitter); backoffSeq <= max_backoff from the first retry on; hinted/unhinted delay bounds under the 30 % jitter law; no panic; terminates on every infinite outcome source within max_attempts+1 outcomes with at most max_attempts sleeps. The three defects of the pinned snapshot (first delay = unclamped initial backoff; panic on a product Duration rejects; panic on jitter overflow with a huge Retry-After under the default policy) are kept as decide-checked counter-witnesses about Arith.pinned and as corpus cases that must now pass. from_env: total, ranges of every field, defaults, every u32/u64/bool value reachable through the variables; any policy read from the environment is safe. CDN: a non-2xx status is retried iff 429 or 5xx; a client error is exactly one request; at most 4 requests. Tie to the code: tokio paused clock, every outcome sequence of the quantifier (cut after the deciding outcome) for max_attempts 0..4 (thorough 0..5) x 12 (initial,max) pairs x 14 multipliers incl. NaN, +-inf, negative, 1e300, -0 x jitter on/off, random policies x all 16 error kinds, from_env string pools at every parser boundary, CDN status scripts on a loopback mock.",
    "design_ref": "DESIGN.md §6 C14, Appendix A.8, §8",
    "note": "Trusted: Lean kernel; hand-written model tied by the differential run; exact integer re-implementation of Duration::try_from_secs_f64 in the driver; tokio's paused clock and ms timer granularity; Rust std f64 parser as a parameter. Repaired in /repo: b7c1430.",
    "technique": "Lean 4 proof (induction over the outcome script with the loop variables generalised; f64 scaling and jitter universally quantified) + virtual-clock differential run + oracle on observed call counts and delays",
}
