CFG = P(
    "c15",
    partial=[
        "the MIME body extraction of the `mail_parser` crate is a stand-in function in the model (`mimeBody`: fixed prelude, cut at the first `--RibbitBoundary` marker wherever it stands, one line end removed) compared with the crate on every V1 query of the run, not proved of the crate",
        "axum routing/percent-decoding, reqwest URL handling, socket timeouts (10 s read timeout), task-per-connection scheduling and 'keeps answering other clients' are observed by the run only (storm / hold / conn lines with a probe client); the model is a pure function of (database, request), which is what makes concurrent requests independent",
        "SHA-256 is an arbitrary function H in the theorems (only: 64 hex digits out); the executable FIPS 180-4 transcription in Spec/Sha256Fips.lean is compared with the sha2 crate through every V1 reply of the run",
        "JSON decoding of the database file (serde) is outside the model: records enter as decoded strings",
    ],
    tb=[
        "Model/Bpsv.lean (reader), Model/RibbitFmt.lean (validate, newest-by-build_time, formatting, MIME wrap, command routing, client framing) are hand-written from the Rust and tied by the run only",
        "`char::is_whitespace`, `str::parse::<i64/u32/usize>`, `hex::decode`, `String::cmp` are modelled by hand (isWs, parseI64, parseUnsigned, hexPairs, ltStr) and exercised by the parse/latest lines",
        "mail_parser extracts the single text part the server emits (assumed law, exercised on every V1 query)",
    ],
    assumptions=[
        "sequence number < 2^32 (the reader parses `## seqn` as u32; the server writes Unix seconds, so this holds until 2106 — beyond it every reply is unparsable, Lean: witness_seqn_overflow)",
        "requests for a product are well-formed only if the product name contains no '/' or line break and has no blank at either end (otherwise `{v}/products/{p}/{ep}` is a different command); over HTTP additionally URL-safe characters",
    ],
)
TEXT = {
    "text": "Lean 4 theorems about a model of the Ribbit server and of this project's client reader: for every record that passes validate and whose emitted strings are Clean (no '|', no line break, build parses as i64, keyring is hex, cdn path without trailing blank) and every sequence number < 2^32, the BPSV reader applied to the server's versions/bgdl/cdns text returns exactly the 7 (5) region rows carrying the record's strings, typed; the same through the V1 MIME wrapper for every hash function (the checksum epilogue the server writes is found and verified by the client's extract_checksum for every body); latest_build is the first record with the maximal build_time; one Lean counter-witness per excluded class (pipe, line break, non-numeric build, non-hex keyring, edge blank, '#' product, MIME look-alike, boundary text in a field, seqn ≥ 2^32). The model is tied to the code by running the real server in-process on loopback and querying it with the real RibbitClient (V1, V2) and TactClient (HTTP) over generated databases (strings from a grammar that includes every excluded class), raw/malformed/oversized/non-UTF-8/unterminated request lines from concurrent clients with a probe client, and the reader alone on edited documents.",
    "design_ref": "DESIGN.md §6 C15",
    "note": "Partial: mail_parser, axum, reqwest, timeouts and concurrency are run-only. Known findings: validate admits separators / non-numeric build / unvalidated keyring; edge blanks; '#' products in the summary; V2 replies that look like MIME; the MIME boundary text inside a field truncates V1 replies. One fix: is_v1_mime_response panicked on a multi-byte character across byte 512.",
    "technique": "Lean 4 proof (round trip parse∘format under an explicit Clean predicate, induction over the region list and the strings) + end-to-end differential run + independent oracle",
}
