CFG = P(
    "c13",
    model_is_spec=[],
    partial=[
        "split_independent is false of the tree (finding tcp-split-interior-blank-line): proved under 'no interior segment boundary looks like an end of response' (split_independent_partial) and for the two practical shapes (no interior blank line; first segment already recognised as MIME)",
        "ttl_end_refetch is false of the tree for a second client on the same cache directory (finding cache-ttl-lost-new-client): proved for the client that stored the answer (ttl_end_refetch_partial)",
        "fails_only_if_protocol_fails is false of the tree (finding cache-file-deleted-under-other-client): proved in the form 'an error is an invalid endpoint, a disk-cache read error, or the network's own failure'",
        "a Ribbit TCP response cut at a row boundary parses and is cached (finding tcp-truncated-response-accepted/-cached): the model takes 'this byte string parses' from the case description; BPSV/MIME parsing is not modelled",
        "which ProtocolError class reqwest / tokio produce for refused, dropped, stalled connections is a table in Driver/C13.lean tied by the run only",
        "CdnClient::download (cache-then-fetch-then-store) is not modelled here (same ProtocolCache get/store steps as the model's cacheGet/cachePut)",
    ],
    tb=[
        "Spec/Fallback.lean: the documented fail-over strategy over an arbitrary ordered list of transports; Model/Fallback.queryWithFallback is proved equal to it (fallback_refines_chain)",
        "mock servers, their behaviours and the reading of server logs in harness/src/bin/c13.rs; clock jump (tokio pause/advance/resume on a current-thread runtime) stands in for the 30 s client timeouts",
    ],
    assumptions=[
        "transport outcomes are parameters (Tr → Except Err doc): reqwest, tokio TCP, mail_parser and the BPSV parser are outside the model; BPSV parse(build d) = d is assumed for cached documents",
        "one clock reading per query (lookup and store at the same instant); the run keeps every query ≥ 250 ms away from every expiry instant and discards a case whose real timing drifted by more than 120 ms",
        "is_v1_mime_response and validate_endpoint are modelled on ASCII input only",
        "cache store errors (I/O) and capacity eviction (100 000 files / 10 000 entries) are not modelled",
        "HTTPS endpoint exercised over plain HTTP to loopback (TactClient::new ignores use_https); TLS is outside",
    ],
)
TEXT = {
    "text": "Lean 4 theorems about a model of RibbitTactClient::query as written (validation, cache lookup, TCP-only rule, query_with_fallback, should_retry, TactClient status table, ProtocolCache over the disk and memory back ends with several clients on one directory) for ALL transport outcomes, configurations, keys, times and operation histories: the three-step code equals the generic chain over the permitted protocols; contacts are an initial run of https→http→tcp and every contacted protocol but the last failed transiently; result = document iff a protocol answers it after transient failures of all earlier ones; result = error iff a non-final protocol refused definitively or all failed (with the exact error reported); TCP-only endpoints go to Ribbit alone; after a stored answer every query by that client before now+ttl — and by any other client on the directory — returns it with no transport contacted, whatever other-key / other-client history lies between; failed queries add nothing to the cache; over all histories only documents some transport returned as a well-formed success are ever cached or returned; the TCP read loop returns the bytes up to the first segment boundary that ends in a blank line and is not MIME, hence split-independent under the stated hypothesis. Three clauses are false of the tree and have Lean counter-witnesses replayed on the real code (split at an interior blank line; TTL lost by a second client on the directory; cache error without protocol failure). Tied to the code by a differential run against loopback mock servers (2 HTTP + 1 TCP) over behaviour assignments (all 9^3 × 5 endpoint classes in thorough), every split of short responses into ≤ 3 (4) segments, cache histories around expiry with up to three clients, the whole should_retry table for status 100..599; plus the property's own oracle on the implementation's answers and the servers' request logs. Two defects repaired in /repo (dropped HTTP connections were non-retryable; ProtocolCacheKey equality made the disk cache ignore every TTL).",
    "design_ref": "DESIGN.md §6 C13, Appendix A.8, Appendix B",
    "note": "Trusted: Lean kernel; hand-written Model/Fallback, Model/TcpRead tied by differential run only; the behaviour→error-class table of Driver/C13 (reqwest/tokio/BPSV/mail_parser are parameters); mock servers and clock jump in the harness. Malformed bodies are read as definitive (Parse is non-retryable), matching 'moving on only after a transient failure'.",
    "technique": "Lean 4 proof (refinement to a generic chain, induction over transports and over operation histories, invariants) + differential correspondence run against loopback mock servers + oracle on server logs/answers/cache contents",
}
