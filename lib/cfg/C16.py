CFG = P(
    "c16",
    # the Lean `apply` over the blocks recovered from the patch bytes IS the independent bspatch
    # (patchers_eq_spec): a disagreement on an apply line is a failing input by itself
    model_is_spec=["apply"],
    partial=[
        "zlib (flate2) framing of the three blocks and the 32-byte header are exercised by the run only (the harness recovers the blocks from the patch BYTES with ZbsdiffHeader / ControlBlock::from_compressed / decompress_zlib and re-encodes the control records with its own sign-magnitude encoder); the model works on inflated blocks",
        "divsufsort is not modelled: the suffix array is an input of the model (the harness computes it by sorting the suffixes); suffix_correct does not depend on it being a suffix array at all, only on its entries being positions of old",
        "index reads of compute_diff's scoring loops are modelled with defaulting reads; the loop invariants proved for suffix_correct (lastscan <= scan <= |new|, lastpos+lenf <= |old|, lenb <= pos <= |old|, overlap <= lenb) are the bounds of every slice the emitted blocks are cut from; a Rust panic would show as `panic` != model in the run",
        "builders refusing very large inputs (one operation > 10 MB, output > 1 GB) is modelled (assemble) but only the 1 GB header guard is exercised by the run",
    ],
    tb=[
        "Spec/Bspatch.lean: block-level bspatch (diff add mod 256, extra copy, relative seek, zero beyond old, saturating position) — 25 lines, the statement every builder theorem is about",
        "sign-magnitude control-record codec: offtin + validate + record loop and offtout are modelled, parse(encode cs) = cs is a theorem (codec_roundtrip), and both directions are tied by the run (every build line compares the inflated control bytes the builder wrote with the model's encoding; every apply line carries raw control bytes, incl. partial / negative / oversized records)",
    ],
    assumptions=[
        "|old| <= usize::MAX (true of any Rust Vec); positions never overflow usize in `old_pos += 1` (needs seeks summing to >= 2^64 - |diff|; debug builds panic, release wraps; not generated)",
        "length clause for the streaming patcher: proved for the documented construction ZbsdiffPatcher::new(old, header.output_size); with any other caller-supplied size the Ok length is the caller's, not the header's (known finding stream-size-from-caller: Lean witness + _partial theorem, replayed on the real code on every run)",
        "release-profile arithmetic for the usize `oldscore` of compute_diff (wraps at 0); unreachable with a sorted suffix array, irrelevant to suffix_correct (which holds for any control flow of the scoring loop)",
    ],
)
TEXT = {
    "text": "Lean 4 theorems over ALL old/new contents, block sizes, buffer sizes: both patcher models (byte loops of apply_patch_with_data; buffer-chunk loops of ZbsdiffPatcher) equal the block-level bspatch specification and each other on every patch, valid or not; any Ok result has exactly header.output_size bytes (apply_length_or_error, from raw control bytes through the sign-magnitude parser); one control triple reconstructs one stretch of new (emit_step); simple_correct; chunked_correct for the repaired builder (/repo 5dfb3c4) with kernel-checked counter-witnesses for the pinned one (absolute old_pos written as relative seek: 264-byte witness applies cleanly to other bytes; empty new: error); suffix_correct for compute_diff (scan / forward / backward / overlap loops, fuel measure 2|new|+2 proved sufficient) with EVERY match finder obeying only the in-bounds law, and the modelled binary search obeys it for any index array; codec_roundtrip (sign-magnitude records) and *_bytes_roundtrip: from the encoded control BYTES through header guard, parser and either patcher back to new; simple_total / chunked_total (the builders cannot refuse inputs within the 10 MB / 1 GB limits, empty new included). K: real builders vs model on control triples + inflated diff/extra blocks (suffix builder included: the model runs the same binary search over the suffix array the harness supplies), real patchers vs model on applied output / error class, incl. mutated patches. O: apply(old, build(old,new)) == new on the patch bytes for memory + streaming (1024/4096/clamped), Ok-length == header size on mutated patches, memory == streaming.",
    "design_ref": "DESIGN.md §6 C16, Appendix A.3, §8",
    "note": "Trusted: Lean kernel; Spec/Bspatch (25 lines); hand-written Model/Bspatch tied by the differential run; zlib, divsufsort, binrw header codec outside the model (exercised by the run on real patch bytes).",
    "technique": "Lean 4 proof (refinement of both patchers to a block-level spec; loop invariant + progress measure for bsdiff's compute_diff parametric in the match finder) + differential correspondence run + round-trip oracle",
}
