CFG = P(
    "c18",
    model_is_spec=[],
    partial=[
        "extract_compact_segment with an EMPTY span list keeps the file (finding empty-span-set-noop): compact_eq_concat_live is proved as `_partial` for non-empty lists, with the counter-witness and the exact behaviour on the empty list as separate theorems",
        "spans that reach past the end of the file are outside the property (no theorem about the file contents after the resulting I/O error); model and code are still compared on them (error / partially compacted file / accepted-without-copy) by the run, and bytes_saved_truthful covers them",
        "ArchiveManager::compact: the theorems are about the bookkeeping (recorded size, write position) and the truncation; mmap, rename and BLTE framing are exercised by the run only (record sizes are taken as given)",
    ],
    tb=[
        "Spec/Compaction.lean: Disjoint = pairwise DataSpan::overlaps is false (the crate's own public definition), concatLive, memmove",
        "file model: a byte list; read_exact fails iff the range reaches past the end; write_all past the end zero-fills; set_len truncates or zero-extends (POSIX semantics, exercised by the run on a real file)",
        "f64 utilisation / growth tests are parameters of the model (theorems hold for every such function); the driver evaluates them with IEEE doubles (Lean Float, UInt64.toFloat = Rust `as f64`)",
        "slice::sort_by_key is a stable sort (modelled by List.mergeSort, which is stable); stability is only observable in the planner's choice among equally used segments and is compared by the run",
    ],
    assumptions=[
        "offset + length < 2^64 for every span (DataSpan::end and write_pos += length are unchecked u64 additions); generators stay below",
        "planner: write positions and segment size <= 2^62 (dest_used + source_used is an unchecked u64 addition; beyond 2^63 a release build wraps and a debug build panics) and at most 65536 segments (u16 index; MAX_SEGMENTS is 1023)",
        "I/O calls other than read_exact past the end do not fail (no ENOSPC/EIO in the model)",
        "single caller: nobody else writes the file during compaction",
    ],
)
TEXT = {
    "text": "Lean 4 theorems about an executable model of storage/compaction.rs (after two fix: commits) and of the truncation in ArchiveManager::compact: validate_spans accepts exactly the pairwise non-overlapping lists (DataSpan::overlaps) for every input order incl. zero-length/equal-offset spans; an overlapping list is refused with the file untouched; the chunked in-place copy equals memmove for EVERY buffer size >= 1 whenever dst <= src (induction over chunks), the chunked move_data between two files equals one write of the whole source range for every buffer size, and every budget yields a buffer >= 128 KiB; for every file, budget and non-empty, disjoint, in-bounds span list in any order the file becomes the spans' original bytes concatenated in offset order (any offset-ordered arrangement gives the same bytes) and Ok(saved) is exactly the shrinkage (also for out-of-bounds lists); the greedy merge plan, for every population <= 65536 segments, every threshold/f64 rounding and every segment size, never panics, never writes below a destination's used bytes, never overlaps two moves, never exceeds the segment size, never moves a segment onto itself or twice, moves whole frozen sources only and reports the true total; ArchiveManager::compact keeps all bytes below the write position and is a no-op on every reachable state. Tied to the code by a differential run (real files on disk, real plan) and the property's oracle on the implementation's output: all span pairs on a 12-byte file, sampled 3-5 span sets, 150 KiB-1 MiB files with spans around the 128 KiB buffer and the budget-derived buffer sizes, direct compact_in_place and move_data geometries (incl. dst > src, short files, holes past the end of the destination), all populations of <= 4 (thorough 5) segments over 7 fill levels x 3 thresholds, random populations to 40 segments with boundary fills/thresholds (NaN, inf, 0, >1).",
    "design_ref": "DESIGN.md §6 C18, Appendix A.4, §8",
    "note": "Finding: empty span list is a no-op (design-level). Fixed in /repo: first destination cursor (2263c50), equal-offset sort key (7e54412). Trusted: Lean kernel; hand-written model tied by the differential run; POSIX file semantics; u64 overflow excluded by hypothesis.",
    "technique": "Lean 4 proof (induction over chunks / spans / greedy loop with invariant; refinement to memmove and list concatenation) + differential correspondence run on real files + direct oracle",
}
