CFG = P(
    "c19",
    model_is_spec=["read"],
    partial=[
        "whole-program refinement (builder_refines_sets, mask_len_inv) is proved for the InstallManifestBuilder model; for the DownloadManifestBuilder the same per-operation theorems are proved (its own remove_file loop: remove_file_shift_download; shared add_tag/add_file/associate/dissociate mask steps and name-map lemmas) but the induction over whole download programs (remove_tag's map rebuild, checksum/flag setters that do not touch masks) is covered by the differential run only",
        "duplicate live tag names are outside the theorems (known finding tag-set-dupname); the model reproduces the shadowing bug for bug and the run compares it",
        "size manifest: only the tag-mask part of SizeManifestBuilder (add_tag, tag_file, build resize) is modelled; header/entry serialisation of size manifests is exercised by the oracle only",
        "UTF-8 validation of names/paths in the parsers is not modelled (Rust Strings are valid UTF-8 by type)",
    ],
    tb=[
        "Spec/TagSets.lean: membership vectors, eraseIdx for file removal, msbBit/readBits = bit (7 - i%8) of byte i/8 by division arithmetic (the convention of other NGDP tools; cross-checked against the crate's real-manifest unit tests and an independent Rust walker in the harness)",
        "HashMap<String, usize> modelled as an association list with replace-on-insert; Vec::resize / Vec::remove as take/replicate / eraseIdx",
    ],
    assumptions=[
        "live tag names are distinct (a second add_tag of a live name is the recorded finding tag-set-dupname)",
        "tag names and install paths contain no NUL byte (the format is NUL-terminated) and are valid UTF-8; content/encoding keys are 16 bytes",
        "tag count < 2^16 and entry count < 2^32 (build rejects larger)",
        "install sizes < 2^32 (u32 parameter), download sizes <= 2^40-1 (larger is rejected, proved), priorities and base priority in -128..=127 (i8 parameters)",
        "an Err result leaves the builder as it was (the caller keeps its previous value; the harness snapshots before every fallible call)",
    ],
)
TEXT = {
    "text": "Lean 4 theorems about a model of the install/download/size manifest tag machinery as written: has_file reads bit 7-i%8 of byte i/8 (equal to an arithmetic MSB-first reader, also inside the serialised tag bytes); add_file/remove_file change exactly one bit; for every program of the install builder that keeps live tag names distinct, the builder state refines the abstract tag->membership-vector state and every mask has ceil(n/8) bytes with no stale bit (builder_refines_sets, mask_len_inv; kernel-checked counter-witness for duplicate names); every mask operation of both builders (new tag, add file + resize, associate, dissociate, the install remove_file byte rebuild and the download remove_file running-position loop) keeps the invariant 'mask has ceil(n/8) bytes and no bit at or beyond n' and refines the abstract membership vector (remove file k = delete position k, for every n and k, across byte boundaries); intersect/union are pointwise; per-tag, all-of, any-of, size-sum and priority-category queries select exactly the enumerated entries whose bits are set; parse(build(m)) = m for every well-formed install (V1, V2) and download (V1-V3, checksums, flags 0-4) manifest; 40-bit sizes and i8 priorities round-trip, sizes > 2^40-1 are rejected. The model is tied to the code by a differential run over builder programs (file counts 0..=70 exhaustively x removal positions around byte boundaries, random programs up to 20 tags / 70 files, thorough 300), on serialised bytes, re-parse, all queries, error classes; an independent MSB-first reader in the Lean driver and one in the harness read the bytes the real code wrote; a reference set model is the oracle.",
    "design_ref": "DESIGN.md §6 C19, Appendix A.7",
    "note": "Trusted: Lean kernel; Spec/TagSets; hand-written model tied by the differential run; name-map resolution over whole programs by lemmas + run (see partial). Duplicate live tag names: known finding.",
    "technique": "Lean 4 proof (bit-level lemmas via finite tables + induction over loops/lists, refinement to membership vectors, serialise/parse round trip) + differential correspondence run + reference-set oracle + independent on-disk bit readers",
}
