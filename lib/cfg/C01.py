CFG = P(
    "c01",
    partial=[
        "add_encrypted_data with a Salsa20 block index other than the chunk's position: the full round-trip statement is false there (Lean counter-witness blte_roundtrip_full_counterexample, replayed on the real code as corpus/C01/encdata-foreign-index.case); blte_roundtrip_partial carries the explicit hypothesis index = position, blte_roundtrip needs no index hypothesis for all other calls; recorded as a finding (design-level: the API accepts an index the decoder cannot know)",
        "add_chunk is covered for chunks built by ChunkData::new (any mode); hand-made ChunkData::from_compressed chunks with arbitrary declared sizes are outside the quantifier of the theorems (DESIGN §6 C01)",
        "zlib / LZ4 are parameters with the law decompress(compress x) = x (checked against flate2 / lz4_flex on every compressed chunk of every run, not proved); MD5 is an arbitrary 16-byte function H in the theorems and Spec/Md5 (RFC 1321 transcription, checked against RFC vectors by the kernel and against the md-5 crate by the run) in the driver",
        "the extended (0x10, 40-byte) table format and Frame mode are not produced by the builder; the model parses 0x10 rows but no theorem is stated about them",
    ],
    tb=[
        "Model/Blte.lean: hand-written model of BlteBuilder / BlteHeader / ChunkInfo / ChunkData / BlteFile::{parse, build, decompress, decompress_with_keys} / encrypt_chunk_with_key / decrypt_chunk_with_keys as of the working tree (after fix commits 600e7c6, 81049a9, f48020b, 8773ebc); tied by the differential run on complete serialized containers (byte for byte), decode results, table rows and error classes",
        "Model/Salsa20.lean, Model/Arc4.lean and their round-trip theorems (property C09) are reused unchanged",
        "the correspondence driver instantiates the Codec parameter with the graph of the real compress_chunk that the harness writes on each request line (decompress = inverse graph) and H with Spec/Md5",
    ],
    assumptions=[
        "Codec law: whatever compress_chunk returns for mode Z / 4, decompress_chunk maps back to the input (holds for inputs up to MAX_DECOMPRESSION_SIZE = 1 GiB per chunk; beyond it the real decoder refuses)",
        "every serialized chunk is shorter than 2^32 bytes and the content is shorter than 2^32 bytes (the table stores sizes `as u32`); chunk count > 0xFFFFFF is an encoder error in code and model",
        "Rust type invariants as hypotheses: key is [u8;16], IV is [u8;4], key_name is u64; the key store maps each key name used by the program to the key it was used with (the property's 'matching key store')",
        "DEFAULT_CHUNK_SIZE (private constant) is 262144 in the model; exercised by one 256 KiB + 1 payload per run",
    ],
)
TEXT = {
    "text": "Lean 4 theorems about an executable model of the BLTE builder, serializer, parser and decoder: for EVERY builder program (any sequence and number of with_compression N/Z/4/E/F, with_chunk_size_unchecked incl. 0, with_encryption / without_encryption, add_data, add_mixed_data, add_encrypted_data, add_chunk(ChunkData::new)), every payload (empty, one byte, starting with a mode byte, any length around the chunk size), every Salsa20/ARC4 spec, key name, IV and key: if every call returns Ok and the named keys are in the store, then parse+decode of the serialized container returns exactly the concatenation of the added bytes (induction over the program with the invariant 'chunk i decodes at block index i to its content and declares its content size'; decrypt∘encrypt from the C09 cipher theorems; parse∘serialize proved on the layouts build produces), and every chunk-table row records the serialized chunk length, H of exactly those bytes and the length of the content the chunk decodes to; a decode that returns Ok never returns other bytes; chunk size 0 and unusable modes return Err. One clause of the quantifier is false of the code and is a recorded finding with a kernel-checked counter-witness: add_encrypted_data with a Salsa20 block index other than the chunk's position. Four defects of the pinned tree were repaired by fix commits and their witnesses now pass. The model is tied to the code by a differential run (real builder vs compiled Lean model, complete containers compared byte for byte, with the real compressor's outputs passed as the parameter) over an exhaustive sweep of two-call programs on boundary payload lengths and seeded random programs; the property's oracle (identity, table truth with an independent MD5, error-not-garbage) is evaluated on the implementation's outputs.",
    "design_ref": "DESIGN.md §6 C01, §8",
    "note": "Trusted: Lean kernel; hand-written Model/Blte tied by differential run only; zlib/LZ4 as lawful parameters; MD5 arbitrary in theorems; sizes < 2^32; add_chunk restricted to ChunkData::new; Salsa20/ARC4 models from C09.",
    "technique": "Lean 4 proof (program induction with a decode invariant, parse∘serialize, cipher round trip from C09) + differential correspondence run on whole containers + identity/table oracle with independent MD5",
}
