CFG = P(
    "c09",
    pregen=["python3", "lib/rs2lean.py"],
    model_search={"build": ["Cascette.Generated.CryptoSrc"], "cmd": ["lake", "env", "lean", "--run", "Search/C09.lean"]},
    model_is_spec=["salsa", "salsa_split", "hl", "hl2", "j96", "md5", "arc4", "arc4_split", "memcmp", "memeq", "memmem", "memset", "memcpy"],
    partial=[
        "MD5 content/encoding keys: the model is RFC 1321 itself (Spec/Md5.lean, checked against the RFC test suite by kernel evaluation); agreement of the md-5 crate with it is established by the run on every length 0..=300 and around every 64-byte padding boundary (no theorem about the crate); the SIMD helpers are modelled as lane loops with the vector compare/movemask/trailing_zeros abstracted to `first differing index of two w-byte chunks` (theorems simd_*_eq_scalar hold for every lane width and buffer); the intrinsics themselves and batch hash helpers are compared by the run (accelerated == scalar == std on every buffer length 0..=200 and every host CPU-feature subset)",
        "ARC4: round-trip, piecewise and key-length theorems are proved of the model; agreement of the model with RC4 is by the published known answers and the differential run",
    ],
    tb=[
        "lib/rs2lean.py: translator from the straight-line Rust of quarter_round / generate_keystream (round loop, counter carry) / Salsa20Cipher::new state layout / mix / final_mix / both 12-arm lookup3 tails / block loops to Lean (Generated/CryptoSrc.lean, regenerated on every run); Proofs/CryptoTie.lean proves generated = model. Trusted: the translator's reading of that Rust subset; control flow around the fragments (apply_keystream loop, IV extension, early returns) is tied by the differential run only",
        "Spec/Salsa20.lean transcribes DJB's Salsa20 specification; checked against the spec's quarterround vectors and the ECRYPT 128-bit vector by kernel evaluation (tests of the transcription)",
        "Spec/Lookup3.lean transcribes lookup3.c hashlittle/hashlittle2; checked against lookup3.c's driver5 known answers in the run",
    ],
    assumptions=[
        "Rust `[u8;16]` key type: theorems assume key.length = 16",
        "hashlittle* theorems assume input length < 2^32 (beyond it the Rust saturates the length where lookup3.c truncates)",
        "memory safety of the unsafe SIMD code is outside the model",
    ],
)
TEXT = {
    "text": "Lean 4 theorems: the model of the Rust Salsa20 (in-place indexed quarter rounds, 32-bit counter with carry, lazy 64-byte buffer) equals DJB's Salsa20/20 with the CASC nonce rule for every key, IV, block index and message length (the counter carry is covered by the proof, no run can reach it); decrypt∘encrypt = id; piecewise = whole for every split; the 12-arm lookup3 tail and block loop equal lookup3.c hashlittle/hashlittle2 for every seed and every length < 2^32; ARC4 round-trip/piecewise/key-length. The models are tied to the code by a differential run over every length 0..=200 (thorough 0..=1024), every split point, bad IV/key lengths; a disagreement on these lines is reported as a violation with the request as replay because the Lean side is the published algorithm. SIMD helpers and MD5 keys: accelerated == scalar == std for every buffer length 0..=200 on every CPU feature subset of the host (run only).",
    "design_ref": "DESIGN.md §6 C09, Appendix A.6",
    "note": "Trusted: Lean kernel; transcriptions Spec/Salsa20, Spec/Lookup3 (checked against published vectors); hand-written models tied by differential run only; SIMD intrinsics, md-5 crate and memory safety not modelled.",
    "technique": "Lean 4 proof (model = published spec, induction over message / block count) + differential correspondence run + known-answer oracle",
}
