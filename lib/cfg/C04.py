CFG = P(
    "c04",
    partial=[
        "Installation across close + reopen: write_file never saves the index, so every key is lost (finding installation-reopen-loses-index; Lean counter-witness installation_reopen_loses_index); the Installation theorem installation_read_eq_written_partial covers histories without reopen",
        "mmap / page-cache coherence itself: the model takes the mapping as a window of fixed length onto the file's current content (exactly what the bounds check of read_raw uses); roll-over to data.001 near 256 GiB and data files above 1 GiB (30-bit packed offset of the .idx record) are outside the theorems' hypotheses and outside the run",
        "zlib / LZ4 (modes Z and 4 of ArchiveManager::write_content_with_mode) enter as a codec parameter with the round-trip law; the run feeds the library's compressed bytes to the model on the request line",
    ],
    tb=[
        "Model/Archive.lean, Model/Container.lean (hand-written) on top of the C05 index model Model/Lsm.lean and the C01 BLTE model Model/Blte.lean; tied by the streams dyn / inst / arch of harness/src/bin/c04.rs (responses, returned bytes, raw entry bytes incl. the 30-byte local header with both checksums, offsets, sizes, keys)",
        "Spec/Md5.lean (RFC 1321 transcription) instantiates the hash parameter in the driver; Model/Jenkins.lean (C09) the header checksum",
    ],
    assumptions=[
        "no written object's index key (first nine bytes of MD5 of its BLTE image) is all zero (2^-72 per object; C05 finding reload-loses-all-zero-key) and the data file stays below 2^30 bytes",
        "written_object_read_back: later writes do not put OTHER bytes under the same nine key bytes (MD5 prefix collision); the refinement read_after_writes itself needs no such hypothesis (the store is keyed by those nine bytes, as the index is)",
        "file I/O succeeds and nothing else modifies the directory (crashes: C06; compaction: C18)",
    ],
)
TEXT = {
    "text": "Lean 4 theorems: for every history of writes (any payloads and sizes in any order), reads with any buffer, queries, removes, flushes and close+reopen on a DynamicContainer, every response equals that of the map index-key -> written bytes (refinement by induction over the history with the invariant mappedLen = file.length = writePos, C05's index refinement and save/load identity, and 'a stored entry stays readable under appends'); hence no read of a written object is ever truncated / missing / other bytes and no key is marked non-resident; payload-agnostic (the only BLTE sniff is on the container's own frame); archive-level write/read for modes N, Z, LZ4; read succeeds iff inside the mapping for every remap rule. The pinned remap rule and the pinned second decode are kept as kernel-checked counter-witnesses. The model is tied to the real DynamicContainer / Installation / ArchiveManager by a differential run over size programmes (large-then-small, equal, doubling +-1, empty) and BLTE-shaped payload classes, with a reference-map oracle.",
    "design_ref": "DESIGN.md §6 C04, §8",
    "note": "Two defects repaired in /repo (remap rule 6172e03, second BLTE decode b10f99e); one design-level finding (Installation never persists its index). Trusted: Lean kernel, hand-written models tied by the differential run, MD5/zlib/LZ4 as parameters.",
    "technique": "Lean 4 proof (refinement of a keyed store, induction over histories) + differential correspondence run + reference-map oracle",
}
