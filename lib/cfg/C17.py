CFG = P(
    "c17",
    partial=[
        "the theorems are about Model/LruSeq (the code's slot accounting over the key sequence); the pointer layer Model/LruPtr (entry array, prev/next, free list, key map — the code as written) is tied to LruSeq and to the Rust differentially on every run (the driver runs both layers side by side and flags any difference); a refinement proof LruPtr -> LruSeq is not done. Proved of LruPtr itself: the .lru codec round trip and the zero-key witness",
        "all-zero key: lru_refines_textbook and reload_id are false on the tree (kernel-checked witnesses, known findings lru-zero-key-reload / lru-zero-key-iter); proved for histories that never touch the all-zero key, and — for results, order, length, membership — for histories with the zero key that do not reload",
        "after a reload has dropped an all-zero key the real structure is inconsistent (slot both linked and free); the harness ends the history there, LruSeq is no longer exact from that point (LruPtr still follows the code)",
        "filesystem failures of checkpoint_to_disk/load_from_disk, torn or corrupt .lru files and crash atomicity are C06/C02, not modelled here (every file read back was written by checkpoint_to_disk)",
    ],
    tb=[
        "Spec/Lru.lean: the textbook LRU (recency list + capacity) with checkpoints keyed by generation; the generation/file bookkeeping (bump, write current + delete previous, latest, scan) is shared by spec and models",
        "MD5 is a parameter of the model (codec theorem holds for every 16-byte hash function); the driver instantiates it with a constant, the hash bytes are not compared",
        "HashMap<[u8;9],u32> modelled as an association list, Vec<u32> free list as a stack; tokio::fs as a map generation -> bytes",
    ],
    assumptions=[
        "one manager at a time over one directory, reopened only with the same capacity (a checkpoint written by a manager of another capacity is out of scope: load_from_disk adopts the file's entry count)",
        "u64 overflow of `freed += avg_entry_size` in evict_to_target is not modelled (naturals); generations below 2^64 with the wrap to 1 modelled",
        "I/O errors are outside the model: checkpoint_to_disk always succeeds, load_from_disk fails only when the generation's file does not exist",
    ],
)
TEXT = {
    "text": "Lean 4 theorems over ALL operation histories (touch / remove / evict_tail / evict_to_target / bump_generation / checkpoint_to_disk / load_from_disk / run_cycle / reset / reopen, any capacity incl. 0, any key type) about the sequence-level model of LruManager after two fix: commits: invariant `entries + free slots = capacity, keys distinct, every checkpoint a possible state` preserved by every operation on every key (len_le_cap, no_capacity_loss), touch with capacity >= 1 always succeeds and leaves the key present and most recent (touch_present_mru), step-by-step refinement to a textbook LRU — same results, same recency order, same iteration, length, membership (lru_refines_textbook_partial: histories not touching the all-zero key; lru_refines_textbook_no_reload: any keys, no reload), checkpoint+reload = identity (reload_id_partial), .lru codec round trip for every hash function. The full statements are refuted by kernel-checked witnesses for the all-zero key (dropped by is_active on reload, skipped by for_each_entry): recorded findings. The pointer-level model of the code as written runs beside the sequence model in the driver and both are diffed against the real LruManager (real files) on every exhaustive short history over capacities 1-3 / 4 keys incl. the zero key and on seeded long histories to capacity 64; a textbook LRU in the harness is the oracle.",
    "design_ref": "DESIGN.md §6 C17, §8",
    "note": "Trusted: Lean kernel; hand-written models tied by the differential run (pointer layer <-> sequence layer <-> Rust); MD5 abstract; I/O failures and crash behaviour out of scope (C06). Two defects fixed in /repo (slot leak in evict_tail/evict_to_target; checkpoint deleting the file it just wrote when prev_generation == generation); all-zero key is a format-level known finding.",
    "technique": "Lean 4 proof (invariant + forward simulation to a textbook LRU, induction over histories) + exhaustive/seeded differential correspondence run on two model layers + reference-LRU oracle",
}
