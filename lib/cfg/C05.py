CFG = P(
    "c05",
    partial=[
        "reload WITHOUT a preceding save_all is not covered by a theorem (the map then is, per bucket, the map as of that bucket's last write: save_all, explicit flush with pending updates, or the flush a mutator performs on a full update section); Spec/IndexMap states it with the written buckets as an input and Props/C05 keeps the full statement in a comment; it is exercised by the correspondence run (exact) and by the oracle clause 'every bucket comes back as one of the states it went through since it was last saved'",
        "byte layout of the .idx file (guarded block headers, 64 KiB alignment of the update section, 512-byte pages, Jenkins hash guards) is not modelled: save/load are modelled at entry level (what survives serialisation and how fields are masked); the 5-byte packed location codec is modelled and proved (pack_unpack); agreement of the entry-level image with the real files is by the correspondence run (save; reload on every seed, including ids/offsets beyond the field widths and the all-zero key)",
        "std's slice::binary_search_by_key is modelled as a halving search; theorem bsearch_eq_find shows that on a run sorted by distinct keys it returns the unique matching entry, which is std's documented contract",
        "the residency span (offset/length) of an entry is not observable through is_resident/scan_keys/entry_count and is not modelled",
        "all-zero 9-byte key prefix: recorded finding (format-level: an all-zero key is an empty slot of the .idx format); the durability theorems carry the hypothesis key != 0",
        "ids > 1023 / offsets >= 2^30 are masked or dropped by serialisation: outside the property's field limits; hypothesis of the durability theorems, compared with the model only",
    ],
    tb=[
        "Spec/IndexMap.lean: the map specification (last write wins per 9-byte key, truthful booleans, durable copy = map at the last save_all or bucket flush)",
        "file I/O of save_index / ResidencyDb::save is assumed to succeed and to be read back unchanged (crashes: C06; guard hashes are not verified on load: C07)",
        "MurmurHash3 finaliser and the bucket XOR folds are concrete in the executable model and opaque in the theorems (they hold for every hash function)",
    ],
    assumptions=[
        "capacity_pages >= 1 (the crate constant is 60); theorems hold for every capPages >= 1 and every perPage",
        "durability theorems: every stored key has a non-zero 9-byte prefix, archive id <= 1023, offset < 2^30 (the field limits named by the property)",
        "std::fs / tokio::fs calls succeed; BTreeMap / Vec behave as ordered map / sequence",
    ],
    model_is_spec=[],
)
TEXT = {
    "text": "Lean 4 theorems about an executable model of IndexManager (16 LSM buckets: sorted run + paged append-only update log with capacity capPages x perPage as parameters, newest-first log search with tombstones, halving search, BTreeMap dedupe + merge walk of flush, iter_entries, entry-level save/load with the 10+30-bit location packing) after the fix that makes remove_entry/update_entry/update_entry_status flush-and-retry on a full update section: for EVERY history of add/remove/update/status/lookup/has/iter/count/flush/flush_all/save_all/clear_bucket/reload and every capacity >= 1 the model refines a plain map (lookup = latest write, booleans truthful, enumeration = exactly the keys that look up, count = its length); with keys/ids/offsets inside the field limits, save_all followed by reload is the identity on the map (index_refines_map_partial, save_load_id); counter-witness for the pinned remove_entry (returns true, key stays) and for the all-zero key. ResidencyDb model (16 buckets of pages, replace-in-place, hash filter, batch delete on both sides of the threshold, save/load): is_resident/scan_keys = latest mark for every history. The models are tied to the code by a differential run on the real IndexManager/ResidencyDb with bucket-targeted key families that fill the real 1260-entry log, and a reference-HashMap oracle on every response.",
    "design_ref": "DESIGN.md §6 C05, Appendix A.1",
    "note": "Trusted: Lean kernel; hand-written models Model/Lsm, Model/Residency tied by the differential run only; file bytes, fs and hash functions are parameters. Findings: all-zero key lost on reload (format-level), ResidencyContainer::resident_count counts keys whose latest mark is a non-resident span.",
    "technique": "Lean 4 proof (refinement of a map by induction over the history, sorted/distinct invariant) + differential correspondence run + reference-map oracle",
}
