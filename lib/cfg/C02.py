CFG = P(
    "c02",
    partial=[
        "by design only parser FRONT ENDS are proved (Model/ParseGuards: reads, guards, expressions handed to allocation, slice bounds, recursion depth, in source order): blte (header, chunk table, chunk buffers, decompress pre-allocation, LZ4 prefix), encoding, install, download, size, patch-index header, ZBSDIFF header, TVFS folder nesting (on the nesting skeleton; bytes -> skeleton is not modelled, so tvfs lines are oracle-only in K), shmem PID tracking, .idx header/entry block, CDN archive-index footer (= C07's Aidx.footerCheck). A panic, abort or oversized request inside an unmodelled BODY (entry decoders, binrw, flate2, lz4_flex, mail_parser, serde_json) is excluded only by the oracle run, not by a theorem",
        "oracle-only parsers (no front-end model; covered by the worker run under the panic/abort/timeout/allocation oracle): root, tvfs (byte level), tvfsblte, patch archive, build/CDN/patch/product/keyring configs, BPSV, ESpec, V1 MIME (parse + sniff), update section, residency DB + page, LRU file, .build.info, LocalHeader",
        "allocation theorems bound the SINGLE largest request of the front end (a <= c*len + k with explicit constants per parser); the run measures the largest single request of the whole call, not the total footprint",
        "stack depth: the TVFS theorem bounds the recursion depth (<= 513 frames); that 513 frames fit a real stack is checked by the run on a 1 MiB worker stack",
        "LocalHeader::blte_size (size_with_header - 30 in u32) wraps in release builds and panics only with overflow checks on; the release-profile run cannot observe it (candidate patch: saturating_sub), listed for the coordinator",
    ],
    tb=[
        "harness/src/bin/c02.rs allocator shim (records the largest single request, refuses > 1.5 GiB so the worker aborts instead of exhausting memory), worker protocol (catch_unwind, 1 MiB parsing stack, parent-side timeout, abort = worker died), the per-parser bound table c*len+k (64*len+8 MiB; 2100*len+8 MiB for parsers that inflate zlib) and the BLTE allowance walker (LZ4 size prefix / clamped table estimate, both <= 1 GiB)",
        "binrw 0.15 `count`: Vec<T> for non-byte T is collected item by item (no pre-allocation by the count); std Vec::with_capacity(n)/vec![0;n] request exactly n*size_of::<T>() bytes",
        "element sizes of the pre-sized vectors are taken from size_of in the compiled crates (cfg line) and enter the theorems as parameters <= 64",
    ],
    assumptions=[
        "64-bit usize (count*size products of u32 fields do not wrap)",
        "the documented caps are accepted as stated by the property: MAX_DECOMPRESSION_SIZE (1 GiB) for the BLTE pre-allocation and LZ4 prefix",
    ],
    timeout_s={"quick": 600, "thorough": 2400},
)
TEXT = {
    "text": "Lean 4 theorems over all byte strings for the parser front ends (Model/ParseGuards): no panic branch is reachable and every length-driven allocation request is bounded by c*len+k with explicit constants (BLTE/patch-index/ZBSDIFF/shmem/.idx: <= len; encoding <= 64*len; install/download/size <= 64*len + 64*65536; BLTE pre-allocation and LZ4 prefix <= 1 GiB cap), TVFS recursion depth <= 513, .idx record width never 0 (loop advances); the CDN archive-index footer keeps two slicing panics: counter-witness for every hash function + partial theorem (hash-size byte = 8). The models are tied to the code by a worker-process run of all 32 parser entry points on fixtures, builder outputs, every boundary value spliced into every count/size/length field (all 256 values for one-byte fields), truncations and byte mutations under a counting/capping allocator, catch_unwind, 1 MiB stack and a timeout; oracle: outcome in {ok, err} and largest single request <= c*len+k.",
    "design_ref": "DESIGN.md §6 C02, Appendix B (site inventory)",
    "note": "Partial by design: only front ends are proved; bodies and the oracle-only parsers are covered by the run. Trusted: Lean kernel, hand-written front-end models (tied by the differential run), allocator shim and worker protocol, binrw count semantics.",
    "technique": "Lean 4 proof (front-end models: case analysis over guards, induction over the chunk table / nesting tree) + isolated-worker differential run + panic/abort/timeout/allocation oracle",
}
