CFG = P(
    "c06",
    partial=[
        "partial by design: the kernel's real crash behaviour is an assumption (Spec/Fs: a file's synced prefix survives, everything behind it is arbitrary bytes up to the written length; create/rename/unlink are atomic and persistent in program order; no directory fsync needed). Reordering inside an fsynced range, mmap writes and real power loss are not expressible",
        "the theorems are about the PROTOCOL (which names, which calls, which order, what is synced) with file contents and parsers as parameters; that a completed save reloads as the saved state is C05/C07/C17's round trip and is checked here by the run only (reload == state in memory of the saving process)",
        "save_index's retry loop is proved for every outcome list of the three attempts; the run reaches only the success path (I/O errors are not induced)",
        "compaction journal (ExtractorCompactorBackup): append-only, never synced, header written only when the file is empty - NOT crash safe (three known findings with kernel-checked witnesses); proved: a torn append on a well-formed journal loads as old or new when nothing but the tear happens (journal_record_torn_write_safe_partial)",
        "DiskCache: proved for keys whose temporary name differs from the entry name and from the entry name of every probed key; the two key shapes where it does not (key ending in .tmp; key K next to key K.tmp) are known findings with witnesses",
    ],
    tb=[
        "Spec/Fs.lean: the crash relation (assumed, pessimistic about data, exact and ordered about the directory)",
        "strace's report of the worker process's system calls (open-for-write, write, fsync, rename, unlink on the scratch directory) is the observed protocol; the harness's crash-state builder is tied to Spec/Fs by `state`/`resume` lines on every run",
        "file contents are passed to the model as given (taken from the directory after the save); the model derives names, call order, sync points, the deletion rule and the journal bytes",
    ],
    assumptions=[
        "one saving process at a time per directory; the state before a save is durable (earlier completed saves have reached the disk)",
        "metadata operations are persistent in program order (journalled file system); rename is atomic",
        "LRU: generations below 2^64; the theorem is for the repaired checkpoint_to_disk (fix commit 1b2b74f)",
    ],
)
TEXT = {
    "text": "Lean 4 theorems over ALL crash points (before/after every call and inside every write, un-synced content arbitrary: every prefix, zeros, stale bytes) of the save protocols modelled over Spec/Fs: temp+fsync+rename leaves every loader-visible file byte-for-byte old or new (atomic_replace_crash_safe), for save_index with every outcome of its three attempts (save_index_crash_safe), for save_all bucket by bucket (save_all_per_bucket_crash_safe), ResidencyDb::save, DiskCache::write_file (keys whose temp name is not an entry name) and the repaired LRU checkpoint, where the loader (highest generation, MD5-checked, no fallback) returns the old or the new table at every crash point (lru_checkpoint_crash_safe; lru_checkpoint_complete: the completed checkpoint is what loads next when no higher generation exists) while the pinned in-place checkpoint is refuted (lru_checkpoint_pinned_counter; fixed in /repo); temporary names are never loader-visible names (idx_tmp_not_index_name, lru_tmp_not_generation_name). The journal and two DiskCache key shapes are refuted by kernel-checked witnesses (known findings). The protocol itself is OBSERVED: every save runs in a worker process under strace and the canonical syscall trace must equal the model's trace; from the observed trace every crash state (64-byte cuts, as-written/dropped/zeros/stale) is materialised and the real loaders (IndexManager::load_all, ResidencyDb::load, LruManager::run_cycle, DiskCache::get, ExtractorCompactorBackup::load) must return old or new per object.",
    "design_ref": "DESIGN.md §6 C06, §3",
    "note": "Partial by design: crash semantics of the kernel are an assumption of Spec/Fs; contents/parsers are parameters; journal and DiskCache temp-name aliasing are recorded findings; LRU checkpoint repaired in /repo (1b2b74f).",
    "technique": "Lean 4 proof (crash relation over syscall traces, case analysis over all cuts, frame lemmas, induction over buckets/attempts) + strace-observed protocol correspondence + exhaustive crash-state materialisation under the real loaders",
}
