CFG = P(
    "c20",
    partial=[
        "raw DiskCache keys are NOT confined (known findings escape-disk-*, read-escape-disk-*, escape-cdn-dotdot): the full-strength confinement theorem is stated and refuted by kernel-checked counter-witnesses; what is proved is confinement for every key text without '..' segments that is not absolute and has a file name, which covers all well-formed typed keys, every endpoint accepted by the fixed validate_endpoint, every CDN cache key whose endpoint.path has no '..' segment, every accepted installation name and the fixed-width binary names",
        "temporary files: with_extension(\"tmp\") is proved injective only for file names without '.'; shared and aliased temp names are known findings (tmp-shared-stem, tmp-aliases-final, tmp-clobbers-other-key) with counter-witnesses; the candidate repair (append \".tmp\") is proved injective but still aliases keys ending in \".tmp\"",
        "the file-system shell of the model (Model/DiskFs: mkdir -p, rename onto a directory, trailing '/', NUL, 255-byte names, std 1.95 with_extension quirks) is tied by the correspondence run only; the theorems are about the path functions it calls",
        "char::is_alphanumeric is a parameter of validate_endpoint in the theorems (they hold for every predicate); the driver uses ASCII alphanumerics plus the two non-ASCII letters the generator emits",
        "URL text: only panic-freedom and the shape for well-formed paths are covered; how reqwest/url normalise a hostile host or path is outside the model",
    ],
    tb=[
        "Model/Path transcribes std::path (components, join/push with absolute right operand, file_name, with_extension as implemented in std 1.95, parent) and the kernel's lexical resolution of '..' once every intermediate directory exists (create_dir_all creates them); exercised against the real std and kernel on every run",
        "typed-key hashes are carried as their Display text (32 lower-case hex digits produced by hex::encode); integer Display = Nat.toDigits 10 (injectivity and digits-only proved from Lean core lemmas)",
    ],
    assumptions=[
        "Unix path semantics, no symbolic links inside the configured directories, the configured root itself contains no '..' component",
        "release build: u64 arithmetic in download_range wraps (range_no_overflow states the range in which it does not)",
    ],
    timeout_s={"quick": 600, "thorough": 2400},
)
TEXT = {
    "text": "Lean 4 theorems over all strings: Unix paths are modelled as component lists with Rust's join (absolute right operand replaces), file_name, with_extension (std 1.95) and lexical '..' resolution. Proved: a joined key that is relative and has no '..' segment stays below the root, for every root, every hashed sub-directory layout and every key text (confined_of_no_dotdot); the ten typed keys' as_cache_key is injective for ':'-free fields, per type and across types (typed_keys_injective) and their paths are confined and pairwise distinct for well-formed fields (confined_wf, paths_injective_wf); every endpoint accepted by the repaired validate_endpoint gives a confined cache path, for every alphanumeric predicate (endpoint_confined), while the pinned validator is refuted (endpoint_pinned_counter); CDN cache keys and URLs never panic for keys of any length after the repair (url_no_panic; pinned code refuted for lengths 0 and 1), archive keys accepted by check_archive_key give confined paths; accepted installation names stay below base_path; fixed-width binary names are single hex components. Refuted with kernel-checked witnesses and recorded as findings: confinement for arbitrary raw keys ('..', absolute, empty key), distinct temp files (shared stem, '.tmp' alias). Correspondence: every public path/URL-building API (DiskCache with raw and all typed keys on flat and hashed layouts, ProtocolCache, RibbitTactClient::query against a local HTTP server, every CdnClient entry point with keys of every length 0..=32, Storage::open_installation, format_content_key_path, lru_file_path, IndexManager::save_all) runs in a fresh scratch parent directory; the created files/directories are diffed against the model's prediction and, independently, checked to lie below the configured root.",
    "design_ref": "DESIGN.md §6 C20, §8",
    "note": "Trusted: Lean kernel; Model/Path as a transcription of std::path 1.95 + kernel path resolution (tied by the run); harness oracle (directory listing before/after). Three fix: commits in /repo (validate_endpoint, CDN key checks, open_installation); raw-key confinement and temp naming of DiskCache are recorded findings.",
    "technique": "Lean 4 proof (structural induction over strings/component lists, injectivity of separator-joined fields) + differential correspondence run in a sandboxed directory + before/after listing oracle",
}
