CFG = P(
    "c11",
    features="hooks",
    partial=["(being written)"],
    tb=[],
    assumptions=[],
)
TEXT = {
    "text": "(being written)",
    "design_ref": "DESIGN.md §6 C11, §7, Appendix A.5",
    "note": "",
    "technique": "Lean 4 proof (interleaving semantics, ghost pending-delta invariant, linearisation log) + schedule-controlled correspondence run + linearizability/books oracle",
}
