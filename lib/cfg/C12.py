CFG = P(
    "c12",
    partial=[
        "latest put: the full statement (get answers the value of the latest put while any layer holds it) is false of the tree (findings ml-stale-lower-layer, ml-stale-shadowed-by-upper-layer; Lean counter-witnesses ml_latest_put_counterexample, ml_shadowed_counterexample); proved instead: get = first layer in order that answers (every state), and get = reference value or none for every history whose writes of a key find every other layer without that key and that has no foreign file writes (ml_latest_put_partial)",
        "validation: soundness is proved relative to the hooks (skip || check = valid); the MD5 hooks exempt values above 100 MiB (finding ml-validation-skipped-large); unvalidated reads after a foreign overwrite of a disk-layer file serve the planted bytes (the property's protection is the validated path), counted in the distribution as read.planted-bytes-served-unvalidated",
        "no call blocks forever: proved for the promotion_tracker lock (lock trace of every call never requests the lock while holding it); the layers' own locks (DashMap shards, DiskCache index RwLock, the I/O semaphore) and async scheduling are covered by the watchdog run only",
        "memory layers are run with Lru/Fifo only (victim choice determined by distinct time stamps); Lfu ties / Random are C10's subject; the theorems hold for every victim choice",
        "background cleanup/sync tasks of the layers never run in the harness (current-thread runtime, calls complete on first poll) and are outside the model",
    ],
    tb=[
        "Model/MemCache, Model/DiskCache (property C10) are reused as the layer models; their tie to the code is C10's correspondence run plus this one",
        "Spec/CacheMap.lean: the reference map of the partial latest-put theorem",
        "watchdog: a call that does not answer within 6 s is the observable `timeout` (worker thread abandoned)",
        "fault injection writes/deletes <cache_dir>/<key.as_cache_key()> (sub-directories disabled)",
    ],
    assumptions=[
        "sequential use (concurrency is C11); DashMap / RwLock<HashMap> / the directory behave as maps",
        "layer put / remove / clear do not fail (no lock poisoning, directory writable); a failing layer get is modelled only as the missing-file error",
        "std::sync::RwLock is not re-entrant: requesting it on a thread that holds a guard never returns (what the pinned tree did)",
        "the content hash is an arbitrary function in the theorems; the driver uses RFC 1321 MD5 (Spec/Md5)",
        "the key -> file name map is injective on the keys used (k<n> under region us)",
    ],
)
TEXT = {
    "text": "Lean 4 theorems over an executable model of MultiLayerCacheImpl (after fix 9468e76) built on the C10 layer models, for every promotion strategy, hooks, victim choice, state and history: get / get_with_validation answer with the first layer in order whose own get answers (misses and layer errors fall through); a value held only by a slower layer is found; after remove or clear no layer has anything for the key and that stays so through every operation that does not write the key (puts with evictions, promotions, batches, file faults), so get answers none; batch_get = get key by key, batch_put = put item by item; with hooks and a content key a value is handed out only if the hooks accepted it (MD5 hooks, any hash H: only if H v = key, up to the 100 MiB exemption); an entry reported corrupt is gone from every layer and not served later; no call requests the promotion-tracker lock while holding it (the pinned tree did: Lean counter-witness, repaired in /repo). 'Latest put' is false of the tree (older value left in another layer): counter-witnesses in Lean and corpus, partial theorem for fresh histories. Tied to the code by a differential run over 1-3 layers with 1-3 entry first layers, every operation of the quantifier plus per-layer hit/miss counters and tracker size, deletion/corruption of disk files, every call under a watchdog; the oracle keeps its own definite-holds/absent/unknown shadow per (layer,key).",
    "design_ref": "DESIGN.md §6 C12, §8",
    "note": "Trusted: Lean kernel; hand-written model (layers from C10) tied by differential run only; TTL classes realised with real sleeps; RwLock non-re-entrancy assumed; layer-internal locks only under the watchdog.",
    "technique": "Lean 4 proof (invariants over histories: absence, first-holder scan, lock-trace replay, refinement to a reference map) + differential correspondence run with fault injection under a watchdog + shadow-state oracle",
}
