#!/bin/bash
# try_batch.sh <listfile> — each line: "<Cxx> <patch.diff>"; runs lib/try_seed.sh on each, appends verdicts to <listfile>.out
list=$1; out=$1.out; : > $out
while read pid patch; do
  [ -z "$pid" ] && continue
  echo "=== $pid $patch" >> $out
  /verif/lib/try_seed.sh $pid $patch quick > /tmp/try_batch_one.txt 2>&1
  grep -E "^(VIOLATION|OK |PATCH DOES|check rc)" /tmp/try_batch_one.txt | cut -c1-200 >> $out
  grep -E "^  why" /tmp/try_seed_$pid.log | head -2 | cut -c1-400 >> $out
done < $list
echo DONE >> $out
