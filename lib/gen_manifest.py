#!/usr/bin/env python3
"""Regenerates MANIFEST.json from lib/props.py + lib/manifest_text.py (run after claiming a property)."""
import json, os, sys
ROOT = os.path.dirname(os.path.dirname(os.path.abspath(__file__)))
sys.path.insert(0, os.path.join(ROOT, "lib"))
from props import PROPS
from manifest_text import TEXT, HOOK_COMMITS, NOT_YET

all_ids = [json.loads(l)["id"] for l in open(os.path.join(ROOT, "properties.jsonl"))]
# only properties the coordinator has reviewed are claimed (one id per line in lib/claimed.txt)
claimed = {l.strip() for l in open(os.path.join(ROOT, "lib", "claimed.txt")) if l.strip() and not l.startswith("#")}
checks = []
for pid in all_ids:
    if pid not in PROPS or pid not in TEXT or pid not in claimed:
        continue
    t = TEXT[pid]
    checks.append({
        "property_id": pid,
        "quick_cmd": f"./check {pid} --tier quick",
        "thorough_cmd": f"./check {pid} --tier thorough",
        "evidence_file": f"/verif/evidence/{pid}.json",
        "replay_cmd_template": f"./check {pid} --replay {{path}}",
        "engine": "lean4-proof+correspondence",
        "level_claimed": {"category": "proof", "text": t["text"], "design_ref": t["design_ref"]},
        "level_note": t["note"],
        "technique": t["technique"],
    })
na = [{"property_id": pid, "reason": NOT_YET.get(pid, "check not built yet (work in progress; see DESIGN.md §10 for the order of work)")}
      for pid in all_ids if pid not in {c["property_id"] for c in checks}]
m = {
    "version": 1,
    "setup_cmd": "./check setup",
    "hooks": {
        "guard": "cargo feature `verif-hooks` (crates/cascette-cache), off by default",
        "enable": "the harness crate's `hooks` feature enables cascette-cache/verif-hooks for the C11 and C07 binaries only (C07: the existing disk.get.* points, to rewrite a backing file during a validating read)",
        "baseline_off_cmd": "cd /repo && cargo nextest run --workspace --no-fail-fast --tool-config-file pb:/w/lib/nextest.toml --profile pb --test-threads 8 --offline",
        "source_commits": HOOK_COMMITS,
        "add_only": True,
    },
    "engines": [{
        "name": "lean4-proof+correspondence",
        "path": "/verif/check",
        "serves_properties": [c["property_id"] for c in checks],
        "kind_free_text": "Lean 4 theorems about hand-written executable models (lean/Cascette), axiom audit, and a differential correspondence run (harness/ runs the real Rust code built from /repo's working tree, lean drv_* executables run the models on the same request lines) plus the property's oracle on the implementation",
    }],
    "checks": checks,
    "notes": "See DESIGN.md. KNOWN_FINDINGS.txt lists genuine defects recorded rather than repaired; ./check prints KNOWN-FINDING lines for them and exits 0.",
    "not_applicable": na,
}
json.dump(m, open(os.path.join(ROOT, "MANIFEST.json"), "w"), indent=1)
print("claimed:", [c["property_id"] for c in checks], "unclaimed:", [n["property_id"] for n in na])
