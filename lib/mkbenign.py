#!/usr/bin/env python3
"""mkbenign.py Cxx N <worktree> — prompt for a harmless-change agent (false-alarm test); the worktree must exist."""
import json, os, sys
pid, n, wt = sys.argv[1], sys.argv[2], sys.argv[3]
out = f"/tmp/benignout_{pid}"
rec = next(json.loads(l) for l in open("/verif/properties.jsonl") if json.loads(l)["id"] == pid)
os.makedirs(out, exist_ok=True)
t = open("/verif/lib/benign_prompt.txt").read()
t = (t.replace("{WT}", wt).replace("{PID}", pid).replace("{N}", n).replace("{OUT}", out)
      .replace("{TITLE}", rec["title"]).replace("{STATEMENT}", rec["statement"]).replace("{QUANT}", rec["quantifier"]["text"])
      .replace("{FILES}", ", ".join(rec["anchors"]["files"])))
open(f"/tmp/benignprompt_{pid}.txt", "w").write(t)
print(out, f"/tmp/benignprompt_{pid}.txt")
