#!/bin/bash
# confirm_seed.sh <worktree> <seeddir> "<crate> <crate>…" — confirm a seeded change in a scratch
# worktree: patch applies, touched crates' existing tests pass with it, the demo fails with it
# and passes without it. Prints a one-line verdict per step.
wt=$1; sd=$(readlink -f "$2"); crates=$3
export CARGO_TARGET_DIR=$wt/target CARGO_NET_OFFLINE=true
cd "$wt" || exit 2
git checkout -q -- . && git clean -qfd -e target
git apply "$sd/patch.diff" || { echo "APPLY: FAIL"; exit 3; }
echo "APPLY: ok ($(git diff --stat | tail -1))"
pk=""; for c in $crates; do pk="$pk -p $c"; done
if cargo nextest run $pk --offline > /tmp/confirm_tests.log 2>&1; then echo "EXISTING TESTS WITH CHANGE: pass ($(grep -E 'tests run' /tmp/confirm_tests.log | tail -1))"; else echo "EXISTING TESTS WITH CHANGE: FAIL"; tail -20 /tmp/confirm_tests.log; fi
if bash "$sd/run_demo.sh" > /tmp/confirm_demo1.log 2>&1; then echo "DEMO WITH CHANGE: passes (BAD)"; else echo "DEMO WITH CHANGE: fails (good)"; fi
git apply -R "$sd/patch.diff"
if bash "$sd/run_demo.sh" > /tmp/confirm_demo2.log 2>&1; then echo "DEMO WITHOUT CHANGE: passes (good)"; else echo "DEMO WITHOUT CHANGE: FAILS (BAD)"; tail -20 /tmp/confirm_demo2.log; fi
git checkout -q -- . && git clean -qfd -e target
